#!/bin/bash
# Idempotent: build the overlay venv (python 3.12 of /venv + /repo on the path + solvers from the offline wheelhouse).
set -e
cd "$(dirname "$0")"
V=.venv
if [ ! -x $V/bin/python ] || ! $V/bin/python -c "import z3, crosshair, jsonschema" >/dev/null 2>&1; then
  (
    flock 9
    if [ ! -x $V/bin/python ] || ! $V/bin/python -c "import z3, crosshair, jsonschema" >/dev/null 2>&1; then
      rm -rf $V
      /venv/bin/python -m venv $V
      printf "/venv/lib/python3.12/site-packages\n/repo\n" > $V/lib/python3.12/site-packages/overlay.pth
      PIP_NO_INDEX=1 $V/bin/pip install -q --no-index --find-links /opt/veriftools/wheels crosshair-tool z3-solver cvc5 jsonschema >/dev/null 2>&1
    fi
  ) 9>.envlock
fi
