#!/bin/bash
# usage: tools/seed_vs_checks.sh Cxx [PIDs...] : apply seeded/Cxx/patch.diff to /repo, run demo + checks, restore /repo
id=$1; shift; pids=${@:-$id}
git -C /repo diff --quiet || { echo "/repo not clean"; exit 9; }
git -C /repo apply /verif/seeded/$id/patch.diff || { echo "patch does not apply"; exit 9; }
( cd /repo && PYTHONWARNINGS=ignore timeout 600 /venv/bin/python /verif/seeded/$id/demo.py >/dev/null 2>&1; echo "seed $id: demo on /repo exit $?" )
for p in $pids; do
  out=$(cd /verif && ./check $p quick 2>&1); rc=$?
  echo "  check $p rc=$rc :: $(echo "$out" | grep -E 'tier=' | tail -1 | cut -c1-160)"
  echo "$out" | grep -E "key=" | head -2 | cut -c1-260
done
git -C /repo checkout -- . ; rm -f "/repo/output\\unittest_output_2.py"
