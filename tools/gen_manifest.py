#!/usr/bin/env python3
"""Regenerate /verif/MANIFEST.json from the table below (keeps it schema-valid at all times)."""
import json, os
ROOT = os.path.dirname(os.path.dirname(os.path.abspath(__file__)))
TV, MC = 'translation_validation', 'model_checking'
E1 = 'E1 eqsmt: real generator/parser run per structure; emitted equations translated to z3 reals; entailment/equivalence decided by SMT for all values'
E2 = 'E2 symx: unmodified repo functions executed on z3-backed duck-typed values under a DFS path driver; post-conditions decided by z3 per path'
E3 = 'E3 CrossHair: symbolic execution (z3) of PEP-316 harness functions calling the real API'
C = {
 'C01': dict(level=TV, engine='E1', design='§2 C01',
   technique='SMT entailment (z3 QF_NRA/LRA) over emitted equations, one-period induction, topology zoo enumerated',
   text='For every topology of the zoo, built in its canonical and in alternative admissible declaration orders, the equation text emitted by the real Model.main() is translated to z3 reals and the solver shows, for all exogenous values, lagged states and declared parameters, that sum of dF per currency zone plus the FX position is zero (unsat of the negation), by one-period induction (all k>=2) plus the k=1 base case. Bounded by the zoo grammar, unbounded in the numbers and the horizon.',
   note='Trusted: ast->z3 translator (validated on every run against Python eval on exact rationals), the real EquationParser for splitting the text, z3. Assumes exchange rates > 0. Structure enumerated, numbers symbolic.'),
 'C04': dict(level=TV, engine='E1', design='§2 C04',
   technique='SMT entailment over emitted equations per market (aggregation, clearing, allocation, ledger coefficients by solver-checked finite differences)',
   text='For every market of every zoo topology (canonical and alternative declaration orders): demand aggregation over the harness-computed demander set, supply=demand, allocations sum to supply, each participant variable and booked flow equals the assigned amount (cross rate for foreign suppliers), portfolio demands add to F; each an unsat query over all real valuations.',
   note='Demander/supplier sets come from the public object API and the documented naming rule, not from the generator code. Declaration order canonical (C08 covers order).'),
 'C07': dict(level=TV, engine='E1', design='§2 C07',
   technique='SMT entailment over emitted equations with symbolic positive exchange rates; enumerated refusal outcomes',
   text='For every multi-currency zoo topology (canonical and alternative declaration orders) the solver shows for all positive, time-varying exchange rates and all flows: receiver credited amount*XR_src/XR_tgt, sender debited, numeraire-valued sum of FX net transactions zero, numeraire position zero with paired flows; plus the enumerated outcome that the same topologies without ExternalSector raise LogicError.',
   note='Numeraire rate kept as emitted (freeing it is unsound). Exchange rates assumed > 0.'),
}
C['C08'] = dict(level=TV, engine='E1', design='§2 C08',
   technique='SMT equivalence (per-equation identity, else two-sided entailment) of the systems emitted by permuted builds',
   text='Every zoo topology is built with the real constructors in the canonical order and in every order of a bounded family of dependency-respecting permutations; the emitted systems must have identical variable/lag/exogenous/initial-condition sets and the solver shows each pair of systems equivalent over all real valuations.',
   note='Permutation family bounded (listed in evidence); post-declaration method calls keep canonical order; countries keep relative order.')
C['C09'] = dict(level=TV, engine='E1+E2', design='§2 C09',
   technique='SMT one-period inductive equivalence of emitted SIM/SIMEX1/PC systems with the book recursion (parameters symbolic); symbolic execution of the hand-coded iterative SIM',
   text='For SIM, SIMEX1 and PC built by the bundled builders, the emitted equations together with the book recursion (written independently) entail equality of Y, T, YD, C, V, B, H for all admissible parameters, G, r and lagged stocks (goal-split unsat queries); the real ModelSIMiterative.RunStep is executed symbolically over all paths for G in [0,100], H in [-100,100] on a parameter grid with the closed-form error bound as post-condition.',
   note='Admissibility assumptions listed in evidence; parameter transport (%0.4f) and initial-stock transport (stated stocks incl. zeros are the k=0 state) checked concretely; numerical series agreement is C02 + this.')
C['C18'] = dict(level=TV, engine='E1', design='§2 C18',
   technique='SMT equivalence of emitted systems under a harness-computed renaming / country-prefix map; isolation read off the emitted text',
   text='Single-zone topologies are built under four injective renamings of country/sector/market codes and the renamed system must be the renamed image of the default one (same variable sets; equations equivalent over all reals). Sets of 2-3 economies with distinct currencies (zoo economies, federations, and the bundled SIM/SIMEX1/PC/REG builders), with and without an unused ExternalSector, are built jointly and alone: the joint system restricted to each economy must equal the prefixed stand-alone system and mention no variable of another economy.',
   note="Renaming map and prefix map are computed by the harness from the documented naming convention/object API. Don't-care: government classes' constructor-declared DEM_GOOD/PRIM_BAL when the goods market is renamed; model-level time axis t.")
C['C05'] = dict(level=TV, engine='E1', design='§2 C05',
   technique='SMT equivalence of each emitted right-hand side with the harness-side intended form (canonical binding of referents); syntactic closure read off the emitted text',
   text='Over the zoo and over a family of embedding sites x request time (placeholder / canonical) x 1-2 countries x templates, the real Model.main() is run; the solver shows each emitted equation equal, over all valuations, to its sector-local form / the harness template with referents bound to the canonical FullCode__local variable; closure (unique canonical left-hand sides, no dangling or placeholder name) is read off the text.',
   note='Closure clauses are syntactic (no numbers involved) and enumerated; the semantic clause is decided by z3. Exogenous-text and initial-condition sites cannot embed a name meaningfully and are excluded (stated in evidence).')
C['C13'] = dict(level=TV, engine='E1', design='§2 C13',
   technique='SMT equivalence (z3 normal forms, satisfiability query when they differ) of e and rho(e) under the renamed environment over an enumerated expression x map grammar',
   text='The real list_tokens / replace_token / replace_token_from_lookup are run on every expression of a template grammar (<=7 tokens, adversarial names, all numeric literal forms, strings, calls, lag notation, lists, power, comparisons) and every map of a family incl. swaps, chains and prefix collisions; z3 shows value(e)[n->X_n] == value(rho(e))[rho(n)->X_n] for all valuations with function symbols renamed alike and literals opaque; reported name lists are compared with source-ordered ast names.',
   note='Grammar bounded and enumerated; numbers symbolic. String/complex literals are opaque constants so any change to them is visible.')
C['C12'] = dict(level=MC, engine='E2+E1', design='§2 C12',
   technique='symbolic execution of the real Equation/Term code with symbolic coefficients (z3 reals rendered as placeholders), per-path SMT post-condition; SMT equivalence for create_equation_from_terms',
   text='Inductive step: an Equation with an optional opaque lead and up to 2 (quick) / 3 (thorough) merged terms whose coefficients are symbolic reals is rendered, one real AddTerm(t) is executed for every t of a signed/bracketed/product/quotient alphabet, and on every path z3 shows value(after) == value(before) + value(t) for all coefficients and valuations; create_equation_from_terms is checked on all lists of length <=3 over an alphabet with interior + signs (sum preserved, argument unchanged).',
   note='Trusted: SymCoef duck class (renders as placeholder; sign decided by the path condition), DFS driver, translator. Divisor names assumed non-zero.')
C['C06'] = dict(level=MC, engine='E2+E1', design='§2 C06',
   technique='symbolic execution of the real Sector.AddCashFlow with symbolic ledger coefficients (inductive step), per-path SMT post-conditions; SMT normal-form equivalence on enumerated call histories and RegisterCashFlow sequences through Model.main()',
   text='Inductive step: a sector whose F or INC equation carries terms with symbolic real coefficients (any accumulated multiplicity), with exclusion sets and every status of the flow variable, takes one real AddCashFlow(term, eqn, desc, is_income) for each term of a signed/bracketed/product alphabet; on every path z3 shows F after == F before + flow, INC after == INC before + [income and not excluded] flow, and the definition rule for the flow variable. Concrete histories (<=3 calls) and RegisterCashFlow sequences through main() are checked by z3 normal-form equivalence against the harness-side signed sums.',
   note="Don't-care: prior definition '0.' (zero literal not rendered as 0.0). Exclusion oracle: unsigned, bracket-stripped flow text equals an excluded name.")
C['C16'] = dict(level=MC, engine='E3', design='§2 C16',
   technique='CrossHair symbolic execution (z3) of PEP-316 harnesses over the real accessors: symbolic stored list, cutoff, flags, call count, caller mutation',
   text='Harness functions call the real Model.GetTimeSeries / TimeSeriesHolder.GenerateCSVtext / EquationSolver.GenerateCSVtext / BaseSolver.CreateCsvString with symbolic series (length<=4), cutoff (None/0..5, argument or attribute), suppression flag, series group, 1-3 calls and caller-side mutation; CrossHair must report Confirmed over all paths for each and refute each reachability twin.',
   note='Bounded by the stated sizes; Not confirmed / Unable to meet precondition are reported inconclusive. Counterexamples are replayed in plain Python before being reported.')
C['C19'] = dict(level=MC, engine='E3', design='§2 C19',
   technique='CrossHair symbolic execution (z3): symbolic name subsets for the header, symbolic ragged lengths / horizon for the rows',
   text='Header harnesses choose a symbolic subset of four 6-name pools (all priority names, prefix/case-sharing others) and require one header naming each selected series once in priority-then-sorted order; row harnesses use symbolic ragged lengths 0..4 with position-coded cells under four formats, rendered twice; after a real solve with symbolic horizon 0..3 and exogenous length the table has exactly horizon+1 rows. Each must be Confirmed over all paths; reachability twins must be refuted.',
   note='NOT claimed: the clause "parsing the text recovers every value to the format precision" (C printf realises symbolic values). Cell values are concrete position codes.')
C['C10'] = dict(level=MC, engine='E3+E2', design='§2 C10',
   technique='CrossHair symbolic execution (symbolic horizon, list length, float values, initial value) of loop-light blocks; symx symbolic execution of the unmodified SolveEquation with symbolic exogenous values for iterated/unreduced blocks',
   text='CrossHair harnesses run the real ParseString/SetInitialConditions/SolveEquation with symbolic horizon (0..2/3), exogenous list (length<=4, float values), scalar, tuple, initial-condition value on endogenous/lagged/decorative variables, MaxTime line vs solver attribute, user time axis, and unevaluable values; E2 runs five block shapes (incl. constants, affine iteration, decorative, user time) with reduction on and off, exogenous values symbolic, sizes enumerated, and z3 shows on every path: lengths T+1, exogenous series verbatim, k=0 value, lag relation, time axis; too-short lists rejected.',
   note='Model-level wrappers pass values through repr()/str(float()) text (realisation): covered by a concrete enumeration, reported separately in evidence. Steady-state initialisation is C15.')
C['C02'] = dict(level=MC, engine='E2', design='§2 C02',
   technique='symbolic execution (symx DFS driver, z3) of the unmodified EquationSolver._SolveStep/SolveStep: exact-real residual post-conditions on every path; IEEE binary64 (QF_FP) blind-fork paths for the non-finite clause',
   text='Real mode: nine block shapes (affine 1-3 variables, oscillating, lagged, decorative tree, alias chain, user function) x tolerances x iteration caps x reduction on/off are executed through the real solver with start values and exogenous inputs symbolic in [-100,100]; every feasible path is explored and z3 shows on each normally-returning path that simultaneously determined equations hold within (1+gain)*n*tol/(1-tol)*max(1,max|x|) and decorative/alias/lagged/exogenous/time equations hold exactly. FP mode: the same code on z3 binary64 values, every path, one QF_FP query per returning path: no reported value is NaN or inf for any finite doubles.',
   note='Trusted: SymReal/SymFP duck classes and the driver (max() shadowed by an ite in FP mode only). Residual bound derived from the exit test using the gain read off the real parser partition. n>3 and non-affine simultaneous residuals outside.')
C['C15'] = dict(level=MC, engine='E2', design='§2 C15',
   technique='symbolic execution (symx, z3 reals) of the unmodified CalculateInitialSteadyState followed by one real SolveStep; per-path SMT post-condition',
   text='Stable, drifting, oscillating, damped, explosive, decorated and (thorough) coupled two-stock blocks are initialised by the real steady-state search with all k=0 values and the exogenous input symbolic in [-2000,2000] (both signs), search horizons 2-3(4), tolerances 1e-4 and 1e-2; every feasible path is explored; on acceptance one further real SolveStep(1) is executed and z3 shows every non-excluded variable moves by no more than the documented tolerance rule amplified by the block one-step gain; otherwise the path ended in NoEquilibriumError/ValueError; the initialised solver (equations, parser lists, exogenous series, horizon) is unchanged.',
   note='TimeSeriesHolder.GenerateCSVtext stubbed to "" in E2 runs (log rendering). Default search horizon 200 is outside the bound.')
C['C17'] = dict(level=MC, engine='E2', design='§2 C17',
   technique='symbolic execution (symx) of the target solve after each enumerated history and history-free in the same path; z3 equality of the result terms under the path condition',
   text='All sequences of up to 3 distinct operations from {build+solve another model, solve another solver that registers a same-named function, register logs, clean logs, trace a step, re-solve, re-parse after another block} are executed before the target solve (three targets: plain, with a user function, with steady-state initialisation through the public SolveEquation), whose exogenous and start values are symbolic; on every path the history-free solve is executed too and z3 shows every series value identical, the reported variable set exactly the block`s; FinalEquations of three zoo topologies are textually equal at six object-ID offsets.',
   note='Histories bounded to length 3 over the listed operations; values symbolic. Log files go to a scratch directory that is removed.')
C['C11'] = dict(level=MC, engine='E2', design='§2 C11',
   technique='symbolic execution (symx, z3 reals) of the unmodified solver on expansive/oscillating/erroring blocks with the step trace on; contraction => success with the default cap by exhaustive path exploration; invalid declarations enumerated',
   text='Expansive, oscillating, quadratic, coupled, persistently (in every position of the equation list, also together with a non-convergent rest) and transiently erroring blocks are solved for two periods with symbolic start values/exogenous inputs and iteration caps 0-3(6): every path either returns with all series of length horizon+1 or raises ConvergenceError/ValueError after at most cap+1 traced sweeps with every already-solved period intact and all solved series of equal length. One-variable contractions x=A*x+B (|A|<=0.8) with symbolic B and start value are explored exhaustively under the default cap 400: no path fails. Every reserved name (keywords, builtins, math names, k, self, None) as variable or token and every ill-formed declaration listed in the property is rejected before numbers are produced (enumerated outcome checks).',
   note='Contraction=>success is reached for ONE simultaneous variable only (the property says up to 12): stated as outside the claim. Sweep counts come from the public step trace. The invalid-declaration clause has no numeric input and is enumerated, not solver-decided.')
C['C20'] = dict(level=MC, engine='E2+E1', design='§2 C20',
   technique='the real code generator writes a module per block; the imported module`s RunOneStep is executed symbolically (symx, z3 reals) with per-path SMT post-conditions; z3 normal-form equivalence of the generated Iterator body with the parser equations',
   text='For seven block shapes (with/without user time variable, lags, initial conditions, constants, one or two exogenous lists, time used in an equation, static block) and three generator histories (main once; lists inspected first; regenerated after the horizon was raised) IterativeMachineGenerator.main() writes a module that is imported and run for two periods with previous-period values and exogenous paths symbolic; every path either raises the module`s non-convergence error or z3 shows every block equation holds within gain*tolerance with lags from its own previous period and exogenous values from the supplied paths; the Iterator body equals the parser equations; the table header lists the time axis first and each non-lagged variable once.',
   note='Modules are generated into a scratch directory and removed. Block grammar bounded (<= 2 simultaneous variables).')
C['C03'] = dict(level=TV, engine='E1+E3', design='§2 C03',
   technique='SMT two-sided entailment between the reduced and unreduced systems produced by the real parser/reducer over an enumerated block grammar; CrossHair symbolic execution of SetInitialConditions for k=0',
   text='For every block of a grammar (three prefix-sharing variables x 14 right-hand-side shapes incl. aliases of variables/exogenous/lagged/constants, signed and spaced aliases, products, user functions, lags, initial conditions; plus 4-variable alias/decorative chains) the real ParseString/ValidateInputs/EquationReduction run and z3 shows original |= every reduced equation and reduced |= every original equation with lagged and exogenous values free, plus structural side conditions (same variables once each, simultaneous equations mention no decorative variable, decorative dependencies acyclic). k=0: CrossHair runs the real SetInitialConditions with reduction on and off on 8 block shapes with symbolic initial-condition and exogenous values and must confirm equal time-zero values.',
   note='Numerical agreement of the two iterative solves is outside (differs at tolerance level by construction). Equality loops are refused with ValueError (outcome).')
C['C14'] = dict(level=MC, engine='E2+E1', design='§2 C14',
   technique='symbolic execution of the unmodified EquationParser.ParseString on semi-symbolic strings (symbolic characters, z3 Ints) with all comment texts up to the length bound; SMT equivalence of parsed right-hand sides over enumerated line forms',
   text='The real ParseString runs on eight block sites (equation, last endogenous, lag, initial-condition, marker, exogenous, parameter and comment-only lines) whose comment text is a symbolic string of every length 0..12 (16 thorough) over printable ASCII; every feasible path is explored and the parser lists must equal those of the comment-free block (for a stand-alone comment line carrying the marker word: those of the block with the marker there); witnesses are concrete strings from the z3 model. Enumerated line forms x spacings x lag notations x shuffles are classified and their parsed right-hand sides shown equivalent to the written ones; descriptions/long names from a token alphabet are pushed through Model.main() (enumerated).',
   note='Trusted: SymStr duck class (only the str methods the parser uses; collapses to str when no symbolic character remains). Non-ASCII text outside.')

# --- additions after the seeded-change rounds 3-4 (what the strengthened checks also do) -------------------------------------------
EXTRA = {
 'C01': ' Topologies include zone-wide objects placed outside the government region, a sector in the numeraire country, treasury-issued money, custom codes and foreign residual suppliers; the solver ladder starts with a linear abstraction (definitions substituted, products distributed, monomials abstracted; UNSAT sound) and assumes non-zero divisors.',
 'C02': ' Also: the same solves with a same-named neighbour solver parsed and solved before every period, and with step tracing of the last period (dependent-first decorative block).',
 'C03': ' Also (E2): the real solver with reduction on and off over a generated family of 87 alias-chain blocks (root kind x order x user placement), exogenous values of k>=1 symbolic, step tracing off/on, every variable equal in every period up to 1e-5 relative; the k=0 clause runs CrossHair on the same generated family.',
 'C06': ' Flow-variable pre-states include definitions built through AddVariable + AddTermToEquation; exclusions registered for a same-coded sector of another country.',
 'C09': ' Exogenous-path transport (every public route, after / without the builder book paths) is a concrete side-check.',
 'C10': ' Any solver-level horizon None/0..3 over a block horizon; initial condition stated for the automatic / user time axis.',
 'C11': ' Reserved names are tried with reduction on and off; every model-level invalid-declaration scenario is replayed with another model started / half built / solved after each of its construction calls.',
 'C12': ' Also: histories of <= 3 (4) additions of two caller-held Term objects (symbolic coefficients) or strings into two equations and the constructor form; long numeric literals.',
 'C13': ' Also the object-level route Equation(...).ReplaceTokensFromLookup; number-like names and map keys spelled like tails of numeric literals.',
 'C14': ' Sites followed by blank lines; variable names from the alphabet of the parser structural tokens.',
 'C15': ' Also blocks whose period is itself iterated (bound from the solver exit test at the block own tolerance) and a search failing while stepping (solver left untouched).',
 'C16': ' Also every sequence of <= 4 renders interleaved over the three series groups, each text compared with a reference rendered in a pristine process; Model.MaxTime symbolic and independent of the stored length.',
 'C17': ' Also: construction interleavings (8 topologies x 2 orders x every construction point x 4 interruptions) with the emitted system equivalent to the undisturbed build; re-parse after blocks with other horizons; a solver between parse and solve.',
 'C18': ' Also federations with zone-wide objects in a region, a default-currency region, and economies declared inside one another.',
 'C19': ' Also a solved block with one extra line that defines no variable (phantom initial condition etc.).',
 'C20': ' Also constants in every float() spelling, single-variable block, lag of a lag, block variables named like the template locals (one collision recorded as a known finding); stated constants / initial conditions are the k=0 values.',
}
# --- additions after the seeded-change rounds 5-7 ---------------------------------------------------------------------------------------
EXTRA2 = {
 'C01': ' Rounds 5-7: two tax flows in one zone (with and without a sector-level tax rate), the same flow registered twice, ambiguous topologies excluded (they are refused).',
 'C02': ' Rounds 6-7: a user function registered under the name of a math function, a sign-flipped identity used as the base of a power; a symbolic path the value classes cannot follow makes the case inconclusive and is probed concretely (a reproducing probe is a violation).',
 'C03': ' Round 7: comparison-valued variables at k=0; reduction on == off also on solver objects that solved a sibling block before.',
 'C04': ' Rounds 6-7: out-of-zone sector with a variable named like a market demand, supplier rule / role restated, money issuer without a ledger (the check no longer excuses issuers without F).',
 'C05': ' Rounds 6-7: names embedded after a comma / comparison / line break, sites also through the step-wise runner, a variable named EXOGENOUS_LEVEL (the harness no longer mirrors the substring test).',
 'C06': ' Rounds 6-7: exclusions registered between flows, pre-state with a flow on the books, flows registered after the alias pass, the spelling 0. is identically zero (don\'t-care given up).',
 'C07': ' Round 6: a flow registered n times is booked n times.',
 'C08': ' Rounds 6-7: countries and the external sector are permuted too (unless a Region relies on the documented default currency); ambiguous topologies must be refused alike in every order.',
 'C09': ' Round 6: parameter transport with long decimal expansions (the four-decimal-grid assumption was given up).',
 'C10': ' Rounds 6-7: long decimals and expression text through the Model API; variables excluded from the steady-state search keep their stated initial conditions.',
 'C11': ' Rounds 6-7: symbolic local names containing the separator (CrossHair), contraction written through a user function, contraction from far-away start values (two inputs recorded as known findings).',
 'C12': ' Rounds 6-7: cash-flow histories through Sector.AddCashFlow, the string constructor Equation(lhs, rhs=text).',
 'C13': ' Rounds 6-7: non-ASCII identifiers, formatted string literals; the renamed output must be the same syntax tree up to the names.',
 'C14': ' Rounds 6-7: names containing the marker word, two-lag / bracketed lag lines, left-hand sides that are not names, descriptions with line breaks.',
 'C15': ' Rounds 6-7: the time step in an equation; the bound is the property\'s literally (no allowance for the one-step gain, absolute bound near zero).',
 'C17': ' Round 7: model-level series with / without registered logs for display settings stated before main().',
 'C18': ' Rounds 6-7: ambiguous topologies refused alike under renamings; embedded economies with nested country / currency codes.',
 'C19': ' Round 7: qualified names whose sector codes are prefixes of one another.',
 'C20': ' Rounds 6-7: stated exogenous paths are the module\'s paths, expression scalars, overflow (NaN error), output path in the docstring; four inputs recorded as known findings (namespace collisions, division by a computed constant).',
}
for _pid, _t in EXTRA.items():
    C[_pid]['text'] = C[_pid]['text'] + _t
for _pid, _t in EXTRA2.items():
    C[_pid]['text'] = C[_pid]['text'] + _t
EXTRA3 = {
 'C02': ' Round 9: the residual bound is per equation - n*tol/(1-tol)*(max(1,|v|) + sum_w |A_vw| max(1,|w|)) over the simultaneous variables the equation reads - and a block with two contractions of very different size is explored; 108 concrete runs with a non-finite exogenous value in a period k>=1 (unused / lagged / used).',
 'C05': ' Round 9: one name requested before and after full codes exist, both spellings embedded as terms of one equation / ledger.',
 'C07': ' Round 9: three zones, one market buying from the same-code firms of both other zones.',
 'C09': ' Round 9: every series read repeatedly through Model.GetTimeSeries with time zero suppressed (concrete).',
 'C10': ' Round 9: initial conditions spelled with blanks before the marker.',
 'C12': ' Round 9: unbracketed comparison leads followed by added terms.',
 'C19': ' Round 9: the table of a solved block after a symbolic history (<= 2) of Model.GetTimeSeries reads (series, time-zero suppression, cut-off) at horizon 1-2.',
 'C20': ' Round 9: block variables named like the template placeholders (ITERATOR, MAXTIME, VAR_DECLARATION).',
}
for _pid, _t in EXTRA3.items():
    C[_pid]['text'] = C[_pid]['text'] + _t
PENDING = {}
ALL = ['C%02d' % i for i in range(1, 21)]
checks = []
for pid in ALL:
    if pid not in C:
        continue
    c = C[pid]
    checks.append({
        'property_id': pid,
        'quick_cmd': './check %s quick' % pid,
        'thorough_cmd': './check %s thorough' % pid,
        'evidence_file': 'evidence/%s.json' % pid,
        'replay_cmd_template': './check %s --replay {path}' % pid,
        'engine': c['engine'],
        'level_claimed': {'category': c['level'], 'text': c['text'], 'design_ref': c['design']},
        'level_note': c['note'],
        'technique': c['technique'],
    })
na = [{'property_id': pid, 'reason': PENDING.get(pid, 'check under construction in this round (design in DESIGN.md §2); not claimed until its solver-based check is committed')}
      for pid in ALL if pid not in C]
man = {
    'version': 1,
    'setup_cmd': './ensure_env.sh',
    'hooks': {'guard': 'SFC_MODELS_VERIF', 'enable': 'no source hooks are needed: checks import /repo unmodified through a .pth overlay (env SFC_MODELS_VERIF=1 is exported by ./check but read by nothing in /repo)',
              'baseline_off_cmd': 'cd /repo && /venv/bin/python -m pytest -ra -q -p no:cacheprovider --timeout=900 --continue-on-collection-errors',
              'source_commits': [], 'add_only': True},
    'engines': [
        {'name': 'E1', 'path': 'vf/eqsmt.py', 'serves_properties': [p for p in C if C[p]['engine'].startswith('E1')], 'kind_free_text': E1},
        {'name': 'E2', 'path': 'vf/symx.py', 'serves_properties': [p for p in C if 'E2' in C[p]['engine']], 'kind_free_text': E2},
        {'name': 'E3', 'path': 'vf/chx.py', 'serves_properties': [p for p in C if 'E3' in C[p]['engine']], 'kind_free_text': E3},
    ],
    'checks': checks,
    'not_applicable': na,
    'notes': 'All checks are bounded solver-based checks of the real code; see DESIGN.md. Exit 0 held / 1 VIOLATION / 2 harness error.',
}
json.dump(man, open(os.path.join(ROOT, 'MANIFEST.json'), 'w'), indent=1)
print('checks:', [c['property_id'] for c in checks], 'n/a:', len(na))
