#!/bin/bash
# usage: tools/store_seed.sh Cxx : copy the confirmed patch + demo into /verif/seeded/Cxx (demo retargeted at /repo)
id=$1; wt=/tmp/wt_$id; out=/verif/seeded/$id
mkdir -p $out
cp /tmp/seed_$id.patch $out/patch.diff
sed "s#/tmp/wt_$id#/repo#g" $wt/demo_$id.py > $out/demo.py
cp /tmp/seed_${id}_with.out $out/demo_with_change.out 2>/dev/null
cp /tmp/seed_${id}_without.out $out/demo_without_change.out 2>/dev/null
