#!/bin/bash
# usage: tools/rebase_seeds.sh [seed dirs...]  -- for every stored seed whose patch.diff no longer applies to /repo HEAD (after a repair commit touched
# the same lines): re-apply it with fuzz in a scratch worktree, confirm tests + demo (exit 1 with, 0 without), store the rebased patch as patch.diff and
# keep the previous one as patch_before_<HEAD~>.diff.  Seeds that apply cleanly are only listed.
cd "$(dirname "$0")/.."
head=$(git -C /repo rev-parse --short HEAD)
for sd in ${@:-$(ls seeded)}; do
  d=seeded/$sd
  [ -f $d/patch.diff ] || { echo "$sd: no patch.diff"; continue; }
  if git -C /repo apply --check /verif/$d/patch.diff 2>/dev/null; then echo "$sd: applies"; continue; fi
  rb=$(mktemp -d /tmp/rbs_XXXXXX); rmdir $rb; git -C /repo worktree add -q --detach $rb HEAD
  ( cd $rb
    if patch -s -p1 --fuzz=3 < /verif/$d/patch.diff >/dev/null 2>&1; then how=fuzz; else how=FAILED; fi
    find . -name "*.orig" -delete; find . -name "*.rej" -delete
    git diff -- sfc_models > /tmp/rbs_patch.diff
    if [ "$how" = fuzz ]; then
      t=$(/venv/bin/python -m pytest -q -p no:cacheprovider --timeout=900 2>&1 | tail -1 | cut -c1-30); rm -f "output\\unittest_output_2.py"
      sed "s#/repo#$rb#g" /verif/$d/demo.py > demo_rb.py
      PYTHONWARNINGS=ignore timeout 600 /venv/bin/python demo_rb.py >/dev/null 2>&1; w=$?
      git apply -R /tmp/rbs_patch.diff; PYTHONWARNINGS=ignore timeout 600 /venv/bin/python demo_rb.py >/dev/null 2>&1; wo=$?
      echo "$sd: rebased with fuzz; tests: $t; demo with=$w without=$wo"
      if [ $w -eq 1 ] && [ $wo -eq 0 ]; then cp /verif/$d/patch.diff /verif/$d/patch_before_$head.diff; cp /tmp/rbs_patch.diff /verif/$d/patch.diff; fi
    else
      echo "$sd: DOES NOT APPLY even with fuzz"
    fi )
  git -C /repo worktree remove --force $rb
done
