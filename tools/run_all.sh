#!/bin/bash
# usage: tools/run_all.sh [quick|thorough] [PIDs...]   -- runs checks sequentially, prints one summary line each
tier=${1:-quick}; shift
pids=${@:-C01 C02 C03 C04 C05 C06 C07 C08 C09 C10 C11 C12 C13 C14 C15 C16 C17 C18 C19 C20}
cd "$(dirname "$0")/.."
for p in $pids; do
  s=$(date +%s)
  out=$(./check $p $tier 2>&1); rc=$?
  echo "$p rc=$rc $(( $(date +%s) - s ))s :: $(echo "$out" | grep -E 'tier=' | tail -1)"
  echo "$out" | grep -E "^VIOLATION|^KNOWN|HARNESS-ERROR" | head -5
done
