#!/bin/bash
# usage: tools/mut.sh <file-in-repo> <python-regex-old> <new> <PID>...   : apply a one-off mutation, run checks, restore
f=$1; old=$2; new=$3; shift 3
cd /repo && /venv/bin/python - "$f" "$old" "$new" <<'PY'
import sys,re
f,old,new=sys.argv[1:4]
s=open(f).read()
assert old in s, 'pattern not found'
open(f,'w').write(s.replace(old,new,1))
PY
[ $? -eq 0 ] || { echo "mutation failed"; exit 9; }
git -C /repo diff --stat | tail -1
for p in "$@"; do (cd /verif && ./check $p quick 2>&1 | grep -E "VIOLATION|KNOWN|HARNESS|tier=" | head -6); done
git -C /repo checkout -- .
