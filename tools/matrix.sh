#!/bin/bash
# usage: tools/matrix.sh <seed-dir> [checks...]  : run checks against a scratch worktree of /repo with the seeded patch applied
# (does not touch /repo's working tree; evidence and replays go to a scratch directory)
sd=$1; shift; pids=${@:-C01 C02 C03 C04 C05 C06 C07 C08 C09 C10 C11 C12 C13 C14 C15 C16 C17 C18 C19 C20}
name=$(echo $sd | tr '/' '_')
wt=$(mktemp -d /tmp/mx_XXXXXX); rmdir $wt
git -C /repo worktree add -q --detach $wt HEAD || exit 9
git -C $wt apply /verif/$sd/patch.diff || { echo "$sd: patch does not apply"; git -C /repo worktree remove --force $wt; exit 9; }
scratch=$(mktemp -d /tmp/mxev_XXXXXX)
caught=""
for p in $pids; do
  out=$(cd /verif && SFC_MODELS_ROOT=$wt VERIF_EVIDENCE_DIR=$scratch VERIF_REPLAY_DIR=$scratch ./check $p quick 2>&1); rc=$?
  [ $rc -eq 1 ] && caught="$caught $p"
  [ $rc -eq 2 ] && caught="$caught $p(harness-error)"
done
echo "$sd caught-by:$caught"
git -C /repo worktree remove --force $wt; rm -rf $scratch
