#!/bin/bash
# usage: tools/confirm_seed.sh Cxx  : confirm an independently written breaking change in its scratch worktree /tmp/wt_Cxx
id=$1; wt=/tmp/wt_$id
cd $wt || exit 9
rm -f "output\\unittest_output_2.py"
git diff -- sfc_models > /tmp/seed_$id.patch
echo "patch: $(git diff --stat -- sfc_models | tail -1)"
t=$(/venv/bin/python -m pytest -q -p no:cacheprovider --timeout=900 2>&1 | tail -1); echo "tests with change: $t"
rm -f "output\\unittest_output_2.py"
PYTHONWARNINGS=ignore timeout 600 /venv/bin/python demo_$id.py > /tmp/seed_${id}_with.out 2>&1; echo "demo with change: exit $?"
git apply -R /tmp/seed_$id.patch || { echo "cannot revert"; exit 9; }
PYTHONWARNINGS=ignore timeout 600 /venv/bin/python demo_$id.py > /tmp/seed_${id}_without.out 2>&1; echo "demo without change: exit $?"
git apply /tmp/seed_$id.patch
echo "applies to current /repo: $(git -C /repo apply --check /tmp/seed_$id.patch 2>&1 | head -2 | tr '\n' ' ' ; echo rc=$?)"
