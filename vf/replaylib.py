"""Helpers used by generated replay scripts (run in a fresh process against /repo's current tree)."""
import ast
import fractions
import warnings

warnings.filterwarnings('ignore')
F = fractions.Fraction


class _Lit(ast.NodeTransformer):
    def visit_Constant(self, c):
        if isinstance(c.value, (int, float)) and not isinstance(c.value, bool):
            return ast.copy_location(ast.Call(func=ast.Name(id='__F', ctx=ast.Load()),
                                              args=[ast.Constant(value=repr(c.value))], keywords=[]), c)
        return c


def eval_exact(expr, env, funcs=None):
    """Python's own evaluation of an equation-language expression on exact Fractions (literals as spelled)."""
    node = ast.fix_missing_locations(_Lit().visit(ast.parse(expr.strip(), mode='eval')))
    g = {'__builtins__': {'abs': abs, 'max': max, 'min': min, 'float': lambda x: x}, '__F': F}
    if funcs:
        g.update(funcs)
    return eval(compile(node, '<replay>', 'eval'), g, env)


def get_plan(name, tier='thorough'):
    from vf import zoo
    for t in ('quick', tier):
        for p in zoo.zoo(t):
            if p.name == name:
                return p
    for p in zoo.ambiguous():
        if p.name == name:
            return p
    raise KeyError(name)


def fr(d):
    return {k: F(v) for k, v in d.items()}


def check_period(parser, vals, prev_vals, params, skip=(), tol=F(0)):
    """Do the emitted equations hold at the given period values (exactly, or within tol)? returns list of failures."""
    bad = []
    env = dict(vals)
    env.update(params)
    for v, e in list(parser.Endogenous) + list(parser.Decoration):
        if v in params or v in skip:
            continue
        try:
            r = eval_exact(e, env)
        except ZeroDivisionError:
            bad.append((v, 'zerodiv'))
            continue
        if abs(r - env[v]) > tol:
            bad.append((v, str(r), str(env[v])))
    if prev_vals is not None:
        for v, src in parser.Lagged:
            if abs(env[v] - prev_vals[src.strip()]) > tol:
                bad.append((v, 'lag'))
    return bad
