"""E2: symbolic execution of the *unmodified* Python functions of /repo with duck-typed symbolic values.

SymReal / SymFP wrap z3 terms; SymBool.__bool__ is the only fork point; a depth-first driver re-executes the harness
with a decision prefix until every feasible path has been explored (exhaustive) or a budget is hit (inconclusive).
"""
import fractions
import time

import z3


class Abort(BaseException):
    """infeasible path (not an Exception: the code under test has bare excepts)"""


class Budget(BaseException):
    """exploration budget exhausted"""


class PathEnd(BaseException):
    """harness-requested early end of a path (cut), carries an outcome"""

    def __init__(self, outcome):
        self.outcome = outcome


D = None   # current driver (module-global so that operators can reach it)


def rat(x):
    return z3.RealVal(str(fractions.Fraction(repr(x)))) if isinstance(x, float) else z3.RealVal(x)


class Driver(object):
    def __init__(self, timeout_ms=10000, max_paths=20000, max_seconds=600, mode='incremental', max_depth=100000, abs_fork=False):
        self.abs_fork = abs_fork
        self.s = z3.Solver()
        self.s.set('timeout', timeout_ms)
        self.mode = mode              # 'incremental' (feasibility query per branch) | 'blind' (fork always, query at path end)
        self.prefix = []
        self.todo = []
        self.trace = []
        self.forks = 0
        self.queries = 0
        self.solver_s = 0.0
        self.unknown = 0
        self.paths = 0
        self.max_paths = max_paths
        self.max_seconds = max_seconds
        self.max_depth = max_depth
        self.exhaustive = False
        self.base = []                # global assumptions (value boxes)
        self.placeholders = {}        # SymCoef rendering: name -> z3 term
        self.t0 = None

    # -- solver access --------------------------------------------------------------------------------------
    def assume(self, *conds):
        self.base.extend(conds)
        self.s.add(*conds)

    def check(self, *extra):
        t0 = time.time()
        r = self.s.check(*extra)
        self.solver_s += time.time() - t0
        self.queries += 1
        if r == z3.unknown:
            self.unknown += 1
        return r

    def path_condition(self):
        return [c if v else z3.Not(c) for v, c in self.trace]

    def holds(self, prop):
        """Is prop implied by the current path condition?  -> 'unsat' (yes) / 'sat' (model available) / 'unknown'"""
        r = self.check(z3.Not(prop))
        if r == z3.unsat:
            return 'unsat', None
        if r == z3.sat:
            return 'sat', self.s.model()
        return 'unknown', None

    # -- forking --------------------------------------------------------------------------------------------
    def decide(self, cond):
        cond = z3.simplify(cond)
        if z3.is_true(cond):
            return True
        if z3.is_false(cond):
            return False
        i = len(self.trace)
        if i >= self.max_depth:
            raise Budget()
        if getattr(self, 't0', None) is not None and time.time() - self.t0 > self.max_seconds * 1.25 + 30:
            # the time budget is otherwise only looked at between paths: a single path that runs away (thousands of decisions) has to end too
            raise Budget()
        if i < len(self.prefix):
            v = self.prefix[i]
        elif self.mode == 'blind':
            self.forks += 1
            self.todo.append(self.trace_dec() + [False])
            v = True
        else:
            rt = self.check(cond)
            rf = self.check(z3.Not(cond))
            can_t = rt != z3.unsat
            can_f = rf != z3.unsat
            if can_t and can_f:
                self.forks += 1
                self.todo.append(self.trace_dec() + [False])
                v = True
            elif can_t:
                v = True
            elif can_f:
                v = False
            else:
                raise Abort()
        self.trace.append((v, cond))
        if self.mode != 'blind':
            self.s.add(cond if v else z3.Not(cond))
        return v

    def trace_dec(self):
        return [v for v, _ in self.trace]

    def run_all(self, fn):
        """Explore every feasible path of fn(). Returns list of (decisions, outcome)."""
        global D
        D = self
        self.t0 = time.time()
        self.todo = [[]]
        results = []
        self.exhaustive = False
        while self.todo:
            if self.paths >= self.max_paths or time.time() - self.t0 > self.max_seconds:
                return results
            self.prefix = self.todo.pop()
            self.trace = []
            self.placeholders_path = {}
            self.s.push()
            try:
                out = fn()
                results.append((self.trace_dec(), out))
            except Abort:
                pass
            except PathEnd as pe:
                results.append((self.trace_dec(), pe.outcome))
                if pe.outcome in ('float()-of-symbolic', 'unsupported-pow', 'nonfinite-constant', 'str()-of-symbolic-string'):
                    # the value classes could not follow the code under test along this path: the path is NOT explored, the run is not exhaustive
                    self.cut_paths = getattr(self, 'cut_paths', 0) + 1
            except Budget:
                self.s.pop()
                return results
            finally:
                pass
            self.s.pop()
            self.paths += 1
        self.exhaustive = getattr(self, 'cut_paths', 0) == 0
        return results

    def placeholder(self, term):
        name = 'SYMC_%d' % len(self.placeholders)
        self.placeholders[name] = term
        return name


def lift(x):
    if isinstance(x, SymReal):
        return x.e
    if isinstance(x, bool):
        return z3.RealVal(1 if x else 0)
    if isinstance(x, int):
        return z3.RealVal(x)
    if isinstance(x, float):
        if x != x or x in (float('inf'), float('-inf')):
            raise PathEnd('nonfinite-constant')
        return z3.RealVal(str(fractions.Fraction(repr(x))))
    raise TypeError('cannot lift %r' % type(x))


def _nonfinite(x):
    return isinstance(x, float) and (x != x or x in (float('inf'), float('-inf')))


class SymBool(object):
    def __init__(self, e):
        self.e = e

    def __bool__(self):
        return D.decide(self.e)

    def __invert__(self):
        return SymBool(z3.Not(self.e))


class SymReal(object):
    """Exact real arithmetic; division raises the real ZeroDivisionError on the branch where the divisor is zero.
    A quotient by a symbolic divisor also remembers (numerator, denominator): comparisons against constants and
    additions of constants are then cross-multiplied (after deciding the sign of the denominator), which keeps the
    solver queries linear whenever numerator and denominator are."""
    __slots__ = ('e', 'r')

    def __init__(self, e, r=None):
        self.e = e
        self.r = r

    def _new(self, e):
        return SymReal(e)

    def _addc(a, c):
        """a + c for a constant c, keeping the ratio form"""
        if a.r is not None:
            n, d = a.r
            return SymReal(a.e + c, (n + c * d, d))
        return SymReal(a.e + c)

    def __add__(a, b):
        lb = lift(b)
        if a.r is not None and z3.is_rational_value(lb):
            return a._addc(lb)
        if isinstance(b, SymReal) and b.r is not None and z3.is_rational_value(z3.simplify(a.e)):
            return b._addc(z3.simplify(a.e))
        return SymReal(a.e + lb)

    def __radd__(a, b):
        lb = lift(b)
        if a.r is not None and z3.is_rational_value(lb):
            return a._addc(lb)
        return SymReal(lb + a.e)

    def __sub__(a, b): return SymReal(a.e - lift(b))
    def __rsub__(a, b): return SymReal(lift(b) - a.e)
    def __mul__(a, b): return SymReal(a.e * lift(b))
    def __rmul__(a, b): return SymReal(lift(b) * a.e)

    def __truediv__(a, b):
        d = lift(b)
        if D.decide(d == 0):
            raise ZeroDivisionError('float division by zero')
        if z3.is_rational_value(z3.simplify(d)):
            return SymReal(a.e / d)
        return SymReal(a.e / d, (a.e, d))

    def __rtruediv__(a, b):
        if D.decide(a.e == 0):
            raise ZeroDivisionError('float division by zero')
        return SymReal(lift(b) / a.e, (lift(b), a.e))

    def __pow__(a, b):
        if isinstance(b, int) and 0 <= b <= 6:
            out = z3.RealVal(1)
            for _ in range(b):
                out = out * a.e
            return SymReal(out)
        raise PathEnd('unsupported-pow')

    def __neg__(a): return SymReal(-a.e)
    def __pos__(a): return a
    def __abs__(a):
        if D.abs_fork:
            # decide the sign (keeps every constraint linear at the price of a fork)
            return a if D.decide(a.e >= 0) else SymReal(-a.e)
        return SymReal(z3.If(a.e >= 0, a.e, -a.e))

    def _cmp(a, op, b):
        """comparison a (op) b, cross-multiplied when a is a remembered quotient and b a constant"""
        lb = lift(b)
        if a.r is not None and z3.is_rational_value(lb):
            n, d = a.r
            if D.decide(d > 0):
                return SymBool(op(n, lb * d))
            return SymBool(op(lb * d, n))          # d < 0 (d == 0 was excluded at the division)
        return SymBool(op(a.e, lb))

    def __lt__(a, b): return (0.0 < b) if _nonfinite(b) else a._cmp(lambda x, y: x < y, b)
    def __le__(a, b): return (0.0 <= b) if _nonfinite(b) else a._cmp(lambda x, y: x <= y, b)
    def __gt__(a, b): return (0.0 > b) if _nonfinite(b) else a._cmp(lambda x, y: x > y, b)
    def __ge__(a, b): return (0.0 >= b) if _nonfinite(b) else a._cmp(lambda x, y: x >= y, b)
    def __eq__(a, b):
        if _nonfinite(b):
            return False           # a real number never equals inf / nan
        try:
            return SymBool(a.e == lift(b))
        except TypeError:
            return False
    def __ne__(a, b):
        if _nonfinite(b):
            return True
        try:
            return SymBool(a.e != lift(b))
        except TypeError:
            return True
    __hash__ = None

    def __float__(self):
        raise PathEnd('float()-of-symbolic')

    def __format__(self, spec): return '<sym>'
    def __str__(self): return '<sym>'
    def __repr__(self): return '<sym %s>' % z3.simplify(self.e)

    def __deepcopy__(self, memo):
        return self

    def __copy__(self):
        return self


class SymCoef(SymReal):
    """A SymReal that renders as a registered placeholder name, so that Term.__str__ keeps coefficients symbolic.
    A negative coefficient renders as '-NAME' with NAME bound to its absolute value (as str(float) would put the
    sign first)."""
    __slots__ = ()

    def __add__(a, b): return SymCoef(a.e + lift(b))
    def __radd__(a, b): return SymCoef(lift(b) + a.e)
    def __sub__(a, b): return SymCoef(a.e - lift(b))
    def __mul__(a, b): return SymCoef(a.e * lift(b))
    def __rmul__(a, b): return SymCoef(lift(b) * a.e)
    def __neg__(a): return SymCoef(-a.e)

    def __str__(self):
        if D.decide(self.e < 0):
            return '-' + D.placeholder(-self.e)
        return D.placeholder(self.e)

    __hash__ = None


# ------------------------------------------------------------------------------------------------------------------
# floating point (blind forking; one non-incremental QF_FP query per complete path)

RNE = None


def fpsort(bits):
    return {16: z3.Float16(), 32: z3.Float32(), 64: z3.Float64()}[bits]


class SymFP(object):
    __slots__ = ('e',)
    sort = None

    def __init__(self, e):
        self.e = e

    @staticmethod
    def lift(x):
        if isinstance(x, SymFP):
            return x.e
        if isinstance(x, (int, float)):
            return z3.FPVal(float(x), SymFP.sort)
        raise TypeError(type(x))

    def __add__(a, b): return SymFP(z3.fpAdd(z3.RNE(), a.e, SymFP.lift(b)))
    def __radd__(a, b): return SymFP(z3.fpAdd(z3.RNE(), SymFP.lift(b), a.e))
    def __sub__(a, b): return SymFP(z3.fpSub(z3.RNE(), a.e, SymFP.lift(b)))
    def __rsub__(a, b): return SymFP(z3.fpSub(z3.RNE(), SymFP.lift(b), a.e))
    def __mul__(a, b): return SymFP(z3.fpMul(z3.RNE(), a.e, SymFP.lift(b)))
    def __rmul__(a, b): return SymFP(z3.fpMul(z3.RNE(), SymFP.lift(b), a.e))

    def __truediv__(a, b):
        d = SymFP.lift(b)
        if D.decide(z3.fpIsZero(d)):
            raise ZeroDivisionError('float division by zero')
        return SymFP(z3.fpDiv(z3.RNE(), a.e, d))

    def __rtruediv__(a, b):
        if D.decide(z3.fpIsZero(a.e)):
            raise ZeroDivisionError('float division by zero')
        return SymFP(z3.fpDiv(z3.RNE(), SymFP.lift(b), a.e))

    def __neg__(a): return SymFP(z3.fpNeg(a.e))
    def __pos__(a): return a
    def __abs__(a): return SymFP(z3.fpAbs(a.e))
    def __lt__(a, b): return SymBool(z3.fpLT(a.e, SymFP.lift(b)))
    def __le__(a, b): return SymBool(z3.fpLEQ(a.e, SymFP.lift(b)))
    def __gt__(a, b): return SymBool(z3.fpGT(a.e, SymFP.lift(b)))
    def __ge__(a, b): return SymBool(z3.fpGEQ(a.e, SymFP.lift(b)))
    def __eq__(a, b): return SymBool(z3.fpEQ(a.e, SymFP.lift(b)))
    def __ne__(a, b): return SymBool(z3.Not(z3.fpEQ(a.e, SymFP.lift(b))))
    __hash__ = None

    def __format__(self, spec): return '<symfp>'
    def __str__(self): return '<symfp>'
    def __deepcopy__(self, memo): return self
    def __copy__(self): return self


def fp_query(conds, timeout_ms=300000):
    """One non-incremental QF_FP query."""
    s = z3.SolverFor('QF_FP')
    s.set('timeout', timeout_ms)
    s.add(conds)
    t0 = time.time()
    r = s.check()
    dt = time.time() - t0
    return str(r), (s.model() if r == z3.sat else None), dt


def fp_value(model, term):
    return _fp_to_float(model.eval(term, model_completion=True))


def _fp_to_float(v):
    if v.isNaN():
        return float('nan')
    if v.isInf():
        return float('-inf') if v.isNegative() else float('inf')
    if v.isZero():
        return -0.0 if v.isNegative() else 0.0
    r = z3.simplify(z3.fpToReal(v))
    return float(fractions.Fraction(r.numerator_as_long(), r.denominator_as_long()))


# ------------------------------------------------------------------------------------------------------------------
# semi-symbolic strings: concrete length per path, characters either concrete or symbolic (z3 Int code points in a
# stated range).  Only the str methods the parser uses are provided; any result without a symbolic character collapses
# to a real str, so dictionary keys and the C tokenizer only ever see concrete text.

WHITESPACE = (32, 9, 10, 13, 11, 12, 28, 29, 30, 31)       # str.isspace() below 127
LINE_BOUNDARIES = (10, 11, 12, 13, 28, 29, 30, 133, 0x2028, 0x2029)       # what str.splitlines() splits on


class SymChar(object):
    __slots__ = ('e',)

    def __init__(self, e):
        self.e = e


def _mk(chars):
    if all(isinstance(c, str) for c in chars):
        return ''.join(chars)
    return SymStr(chars)


def _ceq(c, ch):
    """condition 'character c equals concrete character ch' (python bool or z3 Bool)"""
    if isinstance(c, str):
        return c == ch
    return c.e == ord(ch)


def _truth(cond):
    if cond is True or cond is False:
        return cond
    return D.decide(cond)


class SymStr(object):
    def __init__(self, chars):
        self.chars = list(chars)

    @staticmethod
    def fresh(name, n, lo=32, hi=126):
        cs = []
        for i in range(n):
            v = z3.Int('%s_%d' % (name, i))
            D.s.add(v >= lo, v <= hi)
            cs.append(SymChar(v))
        return SymStr(cs)

    def __len__(self):
        return len(self.chars)

    def __iter__(self):
        return iter(self.chars)

    def __add__(self, other):
        return _mk(self.chars + list(other.chars if isinstance(other, SymStr) else other))

    def __radd__(self, other):
        return _mk(list(other) + self.chars)

    def __getitem__(self, idx):
        if isinstance(idx, slice):
            return _mk(self.chars[idx])
        c = self.chars[idx]
        return c if isinstance(c, str) else SymStr([c])

    def lower(self):
        out = []
        for c in self.chars:
            if isinstance(c, str):
                out.append(c.lower())
            else:
                out.append(SymChar(z3.If(z3.And(c.e >= 65, c.e <= 90), c.e + 32, c.e)))
        return SymStr(out)

    def _match_at(self, needle, off):
        conds = []
        for j, ch in enumerate(needle):
            q = _ceq(self.chars[off + j], ch)
            if q is False:
                return False
            if q is not True:
                conds.append(q)
        return True if not conds else z3.And(conds)

    def __contains__(self, needle):
        alts = []
        for off in range(0, len(self.chars) - len(needle) + 1):
            m = self._match_at(needle, off)
            if m is True:
                return True
            if m is not False:
                alts.append(m)
        if not alts:
            return False
        return D.decide(z3.Or(alts))

    def find(self, needle, start=0):
        for off in range(start, len(self.chars) - len(needle) + 1):
            if _truth(self._match_at(needle, off)):
                return off
        return -1

    def _is_space(self, c):
        if isinstance(c, str):
            return c.isspace()
        return D.decide(z3.Or([c.e == w for w in WHITESPACE]))

    def strip(self):
        cs = list(self.chars)
        while cs and self._is_space(cs[0]):
            cs.pop(0)
        while cs and self._is_space(cs[-1]):
            cs.pop()
        return _mk(cs)

    def split(self, sep):
        assert len(sep) == 1
        parts, cur = [], []
        for c in self.chars:
            if _truth(_ceq(c, sep)):
                parts.append(_mk(cur))
                cur = []
            else:
                cur.append(c)
        parts.append(_mk(cur))
        return parts

    def splitlines(self):
        """str.splitlines(): every line boundary character ends a line ('\\r\\n' counts once); no empty last line."""
        parts, cur, i = [], [], 0
        n = len(self.chars)
        while i < n:
            c = self.chars[i]
            if isinstance(c, str):
                is_b = ord(c) in LINE_BOUNDARIES
            else:
                is_b = D.decide(z3.Or([c.e == b for b in LINE_BOUNDARIES]))
            if is_b:
                parts.append(_mk(cur))
                cur = []
                if _truth(_ceq(c, '\r')) and i + 1 < n and _truth(_ceq(self.chars[i + 1], '\n')):
                    i += 1
            else:
                cur.append(c)
            i += 1
        if cur:
            parts.append(_mk(cur))
        return parts

    def replace(self, old, new):
        out, i = [], 0
        while i < len(self.chars):
            if i + len(old) <= len(self.chars) and _truth(self._match_at(old, i)):
                out.extend(list(new))
                i += len(old)
            else:
                out.append(self.chars[i])
                i += 1
        return _mk(out)

    def __eq__(self, other):
        if isinstance(other, str):
            if len(other) != len(self.chars):
                return False
            m = self._match_at(other, 0)
            return _truth(m)
        return NotImplemented

    def __ne__(self, other):
        r = self.__eq__(other)
        return r if r is NotImplemented else not r

    __hash__ = None

    def __str__(self):
        raise PathEnd('str()-of-symbolic-string')

    def __repr__(self):
        return '<symstr len %d>' % len(self.chars)

    def concretize(self, model):
        out = []
        for c in self.chars:
            if isinstance(c, str):
                out.append(c)
            else:
                out.append(chr(model.eval(c.e, model_completion=True).as_long()))
        return ''.join(out)
