"""Differential validation of the E2 value classes and driver (the trusted base of E2): the same unmodified solver code is
run (1) on plain Python floats, (2) on SymReal values that wrap concrete rationals, (3) on SymFP values that wrap concrete
binary64 constants.  With concrete values every branch condition simplifies to a constant, so each run has one path;
(2) must agree with (1) up to rounding, (3) must agree with (1) bit for bit."""
import fractions
import math
import struct

import z3

from vf import symx
from vf.symx import Driver, SymReal, SymFP
import sfc_models.equation_solver as ES
from sfc_models.equation_solver import EquationSolver, ConvergenceError

POINTS = [
    ("x = 0.5*x + G\nd = 2*x + G\nErr_Tolerance = 1e-6\nMaxTime = 1", {'x': 3.25}, {'G': 7.5}, 400),
    ("x = -0.5*y + G\ny = 0.25*x + 1\nErr_Tolerance = 1e-4\nMaxTime = 1", {'x': -12.0, 'y': 40.5}, {'G': 2.125}, 400),
    ("x = 0.25*x + 0.5*LX + G\nLX = x(k-1)\nErr_Tolerance = 1e-3\nMaxTime = 1", {'x': 100.0}, {'G': -33.0}, 400),
    ("x = 2*x + G\nErr_Tolerance = 1e-6\nMaxTime = 1", {'x': 1.5}, {'G': 1.0}, 5),
    ("x = 1/Y + 0.5*x\nErr_Tolerance = 1e-6\nMaxTime = 1", {'x': 1.0}, {'Y': 0.0}, 6),
    ("x = x*x + C\nErr_Tolerance = 1e-6\nMaxTime = 1", {'x': 0.25}, {'C': 0.125}, 400),
    ("x = 0.9*x + G\nErr_Tolerance = 1e-3\nMaxTime = 1", {'x': -10.0}, {'G': 10.0}, 400),
]


def _run(text, k0, exo, cap, wrap):
    es = EquationSolver(text, run_equation_reduction=True)
    es.MaxIterations = cap
    for n, v in exo.items():
        es.Parser.Exogenous.append((n, [0.0, wrap(v)]))
    es.ExtractVariableList()
    es.SetInitialConditions()
    for n, v in k0.items():
        es.TimeSeries[n][0] = wrap(v)
    try:
        es.SolveStep(1)
    except ConvergenceError:
        return 'ConvergenceError', {}
    except ValueError:
        return 'ValueError', {}
    return 'solved', {v: es.TimeSeries[v][1] for v in es.TimeSeries if v not in ('k',)}


def _bits(x):
    return struct.pack('>d', x)


def run(chk=None):
    """returns (number of traces compared, list of mismatches)"""
    bad = []
    n = 0
    from vf.props.c02 import sym_max
    for text, k0, exo, cap in POINTS:
        plain = _run(text, k0, exo, cap, float)
        # (2) exact rationals through SymReal
        D = Driver(timeout_ms=5000, max_paths=3)
        res = D.run_all(lambda: _run(text, k0, exo, cap, lambda v: SymReal(symx.rat(float(v)))))
        n += 1
        if D.paths != 1 or not res:
            bad.append(('real', text, 'concrete run forked into %d paths' % D.paths))
        else:
            o, vals = res[0][1]
            if o != plain[0]:
                bad.append(('real', text, 'outcome %s vs plain %s' % (o, plain[0])))
            else:
                for v, pv in plain[1].items():
                    sv = vals[v]
                    if isinstance(sv, SymReal):
                        q = z3.simplify(sv.e)
                        sv = float(fractions.Fraction(q.numerator_as_long(), q.denominator_as_long())) if z3.is_rational_value(q) else float('nan')
                    if not (abs(sv - pv) <= 1e-9 * max(1.0, abs(pv))):
                        bad.append(('real', text, '%s = %r vs plain %r' % (v, sv, pv)))
        # (3) binary64 through SymFP: bit-exact
        SymFP.sort = symx.fpsort(64)
        old = ES.__dict__.get('max')
        ES.max = sym_max
        try:
            D = Driver(mode='blind', max_paths=3)
            res = D.run_all(lambda: _run(text, k0, exo, cap, lambda v: SymFP(z3.FPVal(float(v), SymFP.sort))))
        finally:
            if old is None:
                del ES.max
            else:
                ES.max = old
        n += 1
        if D.paths != 1 or not res:
            bad.append(('fp', text, 'concrete run forked into %d paths' % D.paths))
        else:
            o, vals = res[0][1]
            if o != plain[0]:
                bad.append(('fp', text, 'outcome %s vs plain %s' % (o, plain[0])))
            else:
                for v, pv in plain[1].items():
                    sv = vals[v]
                    if isinstance(sv, SymFP):
                        sv = symx._fp_to_float(z3.simplify(sv.e))
                    if _bits(float(sv)) != _bits(float(pv)) and not (math.isnan(sv) and math.isnan(pv)):
                        bad.append(('fp', text, '%s = %r vs plain %r (not bit-identical)' % (v, sv, pv)))
    if chk is not None:
        chk.counters['differential_runs'] = chk.counters.get('differential_runs', 0) + n
        for kind, text, why in bad:
            chk.harness_errors.append('E2 self-check (%s) failed on %r: %s' % (kind, text, why))
    return n, bad


if __name__ == '__main__':
    print(run())


def run_coef(chk=None):
    """SymCoef (symbolic coefficients rendered as placeholders): with the coefficient pinned to a concrete value the rendered
    right-hand side must evaluate to the same number as the plain-float rendering of the real Equation/Term code."""
    from vf.symx import SymCoef
    from vf.eqsmt import to_z3, val_fraction
    from sfc_models.equation import Equation, Term
    bad, n = [], 0
    pts = {'x': fractions.Fraction(7, 3), 'y': fractions.Fraction(-5, 4)}
    for lead in (None, 'y*2', ''):
        for c in (-2.5, -1.0, 0.0, 1.0, 3.0, 0.125):
            for add in ('x', '-x', '(-x)', 'x*y'):
                def build(wrap):
                    eq = Equation('lhs', '', [Term(lead, is_blob=True)] if lead is not None else [])
                    eq.AddTerm('x')
                    eq.AddTerm('x*y')
                    for tm in eq.TermList:
                        if not tm.IsBlob and tm.Term == 'x':
                            tm.Constant = wrap(c)
                    eq.AddTerm(add)
                    return eq.RHS()
                plain = build(float)
                D = Driver(timeout_ms=5000, max_paths=3)
                res = D.run_all(lambda: build(lambda v: SymCoef(symx.rat(v))))
                n += 1
                if D.paths != 1 or not res:
                    bad.append(('coef', (lead, c, add), 'forked into %d paths' % D.paths))
                    continue
                sym_txt = res[0][1]
                env = {k: z3.RealVal(str(v)) for k, v in pts.items()}
                env.update(D.placeholders)
                a = val_fraction(to_z3(sym_txt, env))
                b = val_fraction(to_z3(plain, {k: z3.RealVal(str(v)) for k, v in pts.items()}))
                if a != b:
                    bad.append(('coef', (lead, c, add), 'symbolic rendering %r = %s, float rendering %r = %s' % (sym_txt, a, plain, b)))
    if chk is not None:
        chk.counters['differential_runs'] = chk.counters.get('differential_runs', 0) + n
        for kind, what, why in bad:
            chk.harness_errors.append('E2 self-check (%s) failed on %r: %s' % (kind, what, why))
    return n, bad


def run_str(chk=None):
    """SymStr: with every symbolic character pinned to a concrete one, the real ParseString must produce exactly the lists it
    produces on the plain str."""
    from vf.symx import SymStr
    from sfc_models.equation_parser import EquationParser
    bad, n = [], 0
    texts = ["x = 1 # an Exogenous shock = 3 #x\ny = x + 2\nz = y(k-1)\n# exogenous\ng = [1, 2]",
             "x = 1\n  # nothing here = 5\ny = x (k -1 )\nx(0) = 3 # (0)\nMaxTime = 4 # t\n#EXOGENOUS\ng = [1, 2] # =",
             "a = b = c\noops\nx=2*y # exo genous\ny = 1"]
    for text in texts:
        p0 = EquationParser()
        m0 = p0.ParseString(text)
        want = (p0.Endogenous, p0.Lagged, p0.Exogenous, p0.InitialConditions, p0.MaxTime, m0)
        D = Driver(timeout_ms=5000, max_paths=3)

        def run():
            cs = []
            out = []
            inside = False
            for ch in text:
                if ch == '\n':
                    inside = False
                if inside and ch != '\n':
                    v = z3.Int('pin_%d' % len(cs))
                    D.s.add(v == ord(ch))
                    cs.append(v)
                    out.append(symx.SymChar(v))
                else:
                    out.append(ch)
                if ch == '#':
                    inside = True
            p = EquationParser()
            msg = p.ParseString(SymStr(out))
            return (p.Endogenous, p.Lagged, p.Exogenous, p.InitialConditions, p.MaxTime, msg)
        res = D.run_all(run)
        n += 1
        if D.paths != 1 or not res:
            bad.append(('str', text, 'pinned run forked into %d paths' % D.paths))
        elif res[0][1] != want:
            bad.append(('str', text, 'lists %r vs plain %r' % (res[0][1], want)))
    if chk is not None:
        chk.counters['differential_runs'] = chk.counters.get('differential_runs', 0) + n
        for kind, what, why in bad:
            chk.harness_errors.append('E2 self-check (%s) failed on %r: %s' % (kind, what, why))
    return n, bad
