"""Differential validation of the E2 value classes and driver (the trusted base of E2): the same unmodified solver code is
run (1) on plain Python floats, (2) on SymReal values that wrap concrete rationals, (3) on SymFP values that wrap concrete
binary64 constants.  With concrete values every branch condition simplifies to a constant, so each run has one path;
(2) must agree with (1) up to rounding, (3) must agree with (1) bit for bit."""
import fractions
import math
import struct

import z3

from vf import symx
from vf.symx import Driver, SymReal, SymFP
import sfc_models.equation_solver as ES
from sfc_models.equation_solver import EquationSolver, ConvergenceError

POINTS = [
    ("x = 0.5*x + G\nd = 2*x + G\nErr_Tolerance = 1e-6\nMaxTime = 1", {'x': 3.25}, {'G': 7.5}, 400),
    ("x = -0.5*y + G\ny = 0.25*x + 1\nErr_Tolerance = 1e-4\nMaxTime = 1", {'x': -12.0, 'y': 40.5}, {'G': 2.125}, 400),
    ("x = 0.25*x + 0.5*LX + G\nLX = x(k-1)\nErr_Tolerance = 1e-3\nMaxTime = 1", {'x': 100.0}, {'G': -33.0}, 400),
    ("x = 2*x + G\nErr_Tolerance = 1e-6\nMaxTime = 1", {'x': 1.5}, {'G': 1.0}, 5),
    ("x = 1/Y + 0.5*x\nErr_Tolerance = 1e-6\nMaxTime = 1", {'x': 1.0}, {'Y': 0.0}, 6),
    ("x = x*x + C\nErr_Tolerance = 1e-6\nMaxTime = 1", {'x': 0.25}, {'C': 0.125}, 400),
    ("x = 0.9*x + G\nErr_Tolerance = 1e-8\nMaxTime = 1", {'x': -1000.0}, {'G': 1000.0}, 400),
]


def _run(text, k0, exo, cap, wrap):
    es = EquationSolver(text, run_equation_reduction=True)
    es.MaxIterations = cap
    for n, v in exo.items():
        es.Parser.Exogenous.append((n, [0.0, wrap(v)]))
    es.ExtractVariableList()
    es.SetInitialConditions()
    for n, v in k0.items():
        es.TimeSeries[n][0] = wrap(v)
    try:
        es.SolveStep(1)
    except ConvergenceError:
        return 'ConvergenceError', {}
    except ValueError:
        return 'ValueError', {}
    return 'solved', {v: es.TimeSeries[v][1] for v in es.TimeSeries if v not in ('k',)}


def _bits(x):
    return struct.pack('>d', x)


def run(chk=None):
    """returns (number of traces compared, list of mismatches)"""
    bad = []
    n = 0
    from vf.props.c02 import sym_max
    for text, k0, exo, cap in POINTS:
        plain = _run(text, k0, exo, cap, float)
        # (2) exact rationals through SymReal
        D = Driver(timeout_ms=5000, max_paths=3)
        res = D.run_all(lambda: _run(text, k0, exo, cap, lambda v: SymReal(symx.rat(float(v)))))
        n += 1
        if D.paths != 1 or not res:
            bad.append(('real', text, 'concrete run forked into %d paths' % D.paths))
        else:
            o, vals = res[0][1]
            if o != plain[0]:
                bad.append(('real', text, 'outcome %s vs plain %s' % (o, plain[0])))
            else:
                for v, pv in plain[1].items():
                    sv = vals[v]
                    if isinstance(sv, SymReal):
                        q = z3.simplify(sv.e)
                        sv = float(fractions.Fraction(q.numerator_as_long(), q.denominator_as_long())) if z3.is_rational_value(q) else float('nan')
                    if not (abs(sv - pv) <= 1e-9 * max(1.0, abs(pv))):
                        bad.append(('real', text, '%s = %r vs plain %r' % (v, sv, pv)))
        # (3) binary64 through SymFP: bit-exact
        SymFP.sort = symx.fpsort(64)
        old = ES.__dict__.get('max')
        ES.max = sym_max
        try:
            D = Driver(mode='blind', max_paths=3)
            res = D.run_all(lambda: _run(text, k0, exo, cap, lambda v: SymFP(z3.FPVal(float(v), SymFP.sort))))
        finally:
            if old is None:
                del ES.max
            else:
                ES.max = old
        n += 1
        if D.paths != 1 or not res:
            bad.append(('fp', text, 'concrete run forked into %d paths' % D.paths))
        else:
            o, vals = res[0][1]
            if o != plain[0]:
                bad.append(('fp', text, 'outcome %s vs plain %s' % (o, plain[0])))
            else:
                for v, pv in plain[1].items():
                    sv = vals[v]
                    if isinstance(sv, SymFP):
                        sv = symx._fp_to_float(z3.simplify(sv.e))
                    if _bits(float(sv)) != _bits(float(pv)) and not (math.isnan(sv) and math.isnan(pv)):
                        bad.append(('fp', text, '%s = %r vs plain %r (not bit-identical)' % (v, sv, pv)))
    if chk is not None:
        chk.counters['differential_runs'] = chk.counters.get('differential_runs', 0) + n
        for kind, text, why in bad:
            chk.harness_errors.append('E2 self-check (%s) failed on %r: %s' % (kind, text, why))
    return n, bad


if __name__ == '__main__':
    print(run())
