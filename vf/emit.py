"""Run the real generator on a built topology and hand back the emitted text + the real parser's view of it."""
import warnings

from sfc_models.equation_parser import EquationParser


class Emitted(object):
    def __init__(self, ctx, text, parser, err):
        self.ctx = ctx
        self.model = ctx.model
        self.text = text
        self.parser = parser
        self.err = err

    def name(self, sector_key, local):
        return self.ctx[sector_key].GetVariableName(local)

    def defined(self):
        p = self.parser
        return {v for v, _ in p.Endogenous} | {v for v, _ in p.Lagged} | {v for v, _ in p.Exogenous} | {v for v, _ in p.Decoration}


def emit(ctx, maxtime=0, reduce=False, runner='main'):
    """Model.main() (real), horizon 0 so that no iteration is involved; returns the emitted system.
    runner='steps': the step-wise runner the graphical front end uses (Model._GetSteps / _RunAllSteps: codes, aliases, equations, cash flows,
    exogenous, aliases again, final equations, solve) instead of main()."""
    m = ctx.model
    m.MaxTime = maxtime
    err = None
    with warnings.catch_warnings():
        warnings.simplefilter('ignore')
        try:
            if runner == 'steps':
                m._GetSteps()
                m._RunAllSteps()
            else:
                m.main()
        except Exception as e:   # outcome, recorded by the caller
            err = e
    text = m.FinalEquations or ''
    parser = EquationParser()
    if text:
        parser.ParseString(text)
        if reduce:
            parser.ValidateInputs()
            parser.EquationReduction()
    return Emitted(ctx, text, parser, err)


def xr_names(model):
    """Exchange-rate variables (numeraire per unit of currency) of every registered currency."""
    out = []
    ext = model.ExternalSector
    if ext is None:
        return out
    xr = ext['XR']
    for cz in model.CurrencyZoneList:
        if cz.Currency in xr.EquationBlock:
            out.append(xr.GetVariableName(cz.Currency))
    return out
