"""Shared infrastructure: evidence, known findings, replay-before-report, exit codes."""
import hashlib
import inspect
import json
import os
import subprocess
import sys
import time
import traceback

ROOT = os.path.dirname(os.path.dirname(os.path.abspath(__file__)))
REPO = '/repo'
PY = os.path.join(ROOT, '.venv', 'bin', 'python')
EXIT_OK, EXIT_VIOLATION, EXIT_HARNESS = 0, 1, 2


class HarnessError(Exception):
    pass


def src_sha(obj):
    """sha256 of the current source text of a function/class/module of /repo (evidence: what was encoded)."""
    try:
        src = inspect.getsource(obj)
    except Exception:
        return 'unavailable'
    return hashlib.sha256(src.encode()).hexdigest()[:16]


def qualname(obj):
    mod = getattr(obj, '__module__', None) or getattr(obj, '__name__', '?')
    qn = getattr(obj, '__qualname__', None)
    return mod if qn is None else '%s.%s' % (mod, qn)


class Known:
    """Known findings file (committed, never written at run time)."""

    def __init__(self):
        path = os.path.join(ROOT, 'known_findings.json')
        self.findings = []
        self.fixed = []
        if os.path.exists(path):
            data = json.load(open(path))
            self.findings = data.get('findings', [])
            self.fixed = data.get('fixed', [])

    def match(self, pid, key):
        for f in self.findings:
            if f['property'] == pid and f['key'] == key:
                return f
        return None


def stable_hash(obj):
    """Process-independent hash for thinning enumerated families (the builtin hash() of strings changes from run to run)."""
    import zlib
    return zlib.crc32(repr(obj).encode())


class Check:
    """One run of one property check. Collects obligations, verdicts, samples, timings; decides the exit code."""

    def __init__(self, pid, tier, level, seed=0):
        self.pid = pid
        self.tier = tier
        self.level = level
        self.seed = seed
        self.t0 = time.time()
        self.obligations = 0
        self.discharged = 0
        self.inconclusive = 0
        self.inconclusive_notes = []
        self.violations = []          # (key, description, replay_path)
        self.known_hits = []          # (key, description)
        self.harness_errors = []
        self.samples = []
        self.functions = {}
        self.bounds = {}
        self.assumptions = []
        self.outside = []
        self.solver_s = 0.0
        self.queries = 0
        self.extra = {}
        self.counters = {}
        self.distinct = set()
        self.known = Known()
        self.exhaustive = None
        self.vacuity = {'witnesses_required': 0, 'witnesses_found': 0}

    # ---- bookkeeping -------------------------------------------------------------------------------------
    def encode(self, *objs):
        for o in objs:
            self.functions[qualname(o)] = src_sha(o)

    def count(self, name, n=1):
        self.counters[name] = self.counters.get(name, 0) + n

    def sample(self, s, cap=12):
        if len(self.samples) < cap:
            self.samples.append(s)

    def ob(self, verdict, what=None, distinct=None):
        """Record one obligation verdict: 'unsat' (discharged) / 'unknown' (inconclusive). Violations go through violation()."""
        self.obligations += 1
        if distinct is not None:
            self.distinct.add(distinct)
        if verdict == 'unsat' or verdict is True:
            self.discharged += 1
        elif verdict in ('sat', False):
            pass  # caller reports via violation()
        else:
            self.inconclusive += 1
            if what and len(self.inconclusive_notes) < 20:
                self.inconclusive_notes.append(str(what)[:300])

    def witness(self, ok, what=''):
        """Vacuity twin: a reachability witness that must exist."""
        self.vacuity['witnesses_required'] += 1
        if ok:
            self.vacuity['witnesses_found'] += 1
        else:
            self.harness_errors.append('vacuous: no reachability witness for ' + str(what)[:200])

    # ---- violations --------------------------------------------------------------------------------------
    def violation(self, key, description, replay_src):
        """A solver counterexample. replay_src is a self-contained python script that exits 1 iff the violation
        reproduces against the real code (0 = does not reproduce). Only reproducing ones are reported."""
        for k, _, _ in self.violations:
            if k == key:
                return
        for k, _ in self.known_hits:
            if k == key:
                return
        if len(self.violations) >= 12 and self.known.match(self.pid, key) is None:
            self.counters['violations_not_replayed_after_cap'] = self.counters.get('violations_not_replayed_after_cap', 0) + 1
            return
        rdir = os.environ.get('VERIF_REPLAY_DIR') or os.path.join(ROOT, 'replays')
        os.makedirs(rdir, exist_ok=True)
        fname = os.path.join(rdir, '%s_%s.py' % (self.pid, hashlib.sha1(key.encode()).hexdigest()[:10]))
        with open(fname, 'w') as f:
            f.write('# replay for %s key=%s\n# %s\n' % (self.pid, ' '.join(key.splitlines()), ' '.join(description.splitlines())[:500]))
            f.write(replay_src)
        rc, out = run_replay(fname)
        if rc == 1:
            kf = self.known.match(self.pid, key)
            if kf is not None:
                self.known_hits.append((key, kf.get('what', description)))
                print('KNOWN-FINDING: property=%s %s' % (self.pid, kf.get('what', description).replace('\n', ' ')))
            else:
                self.violations.append((key, description, fname))
                print('VIOLATION property=%s replay=%s' % (self.pid, fname))
                print('  key=%s :: %s' % (key, description.replace('\n', ' ')[:400]))
        elif rc == 0:
            self.harness_errors.append('counterexample did not reproduce: %s (%s)' % (key, description[:200]))
            print('HARNESS-ERROR non-reproducing counterexample key=%s replay=%s\n%s' % (key, fname, out[-600:]))
        else:
            self.harness_errors.append('replay script crashed rc=%s: %s' % (rc, key))
            print('HARNESS-ERROR replay crashed rc=%s key=%s replay=%s\n%s' % (rc, key, fname, out[-800:]))
        sys.stdout.flush()

    def probe(self, key, description, replay_src):
        """A concrete probe for an obligation the solver could not decide (e.g. the value classes could not follow the code along some path):
        the replay script is run against the real code; if it exits 1 the violation is reported like a solver counterexample, if it exits 0
        nothing is claimed (the obligation stays inconclusive)."""
        rdir = os.environ.get('VERIF_REPLAY_DIR') or os.path.join(ROOT, 'replays')
        os.makedirs(rdir, exist_ok=True)
        fname = os.path.join(rdir, '%s_%s_probe.py' % (self.pid, hashlib.sha1(key.encode()).hexdigest()[:10]))
        with open(fname, 'w') as f:
            f.write('# concrete probe for %s key=%s\n# %s\n' % (self.pid, ' '.join(key.splitlines()), ' '.join(description.splitlines())[:500]))
            f.write(replay_src)
        rc, out = run_replay(fname)
        self.counters['concrete_probes'] = self.counters.get('concrete_probes', 0) + 1
        if rc == 1:
            os.remove(fname)
            self.violation(key, description, replay_src)
        elif rc == 0:
            os.remove(fname)
        else:
            self.harness_errors.append('probe script crashed rc=%s: %s' % (rc, key))
            print('HARNESS-ERROR probe crashed rc=%s key=%s replay=%s\n%s' % (rc, key, fname, out[-800:]))

    # ---- finish ------------------------------------------------------------------------------------------
    def finish(self):
        wall = time.time() - self.t0
        cov = {
            'obligations': self.obligations,
            'discharged': self.discharged,
            'inconclusive': self.inconclusive,
            'inconclusive_notes': self.inconclusive_notes,
            'evaluations': max(self.obligations, 1),
            'distinct_nontrivial': len(self.distinct),
            'rule': self.extra.pop('rule', 'one evaluation = one solver obligation (or one symbolic path with its post-condition '
                                             'query); distinct = distinct (structure, obligation kind) pairs whose query is not '
                                             'syntactically trivial, counted by the harness'),
            'samples': self.samples or ['(none)'],
            'functions_encoded': self.functions,
            'bounds': self.bounds,
            'outside_claim': self.outside,
            'solver_time_s': round(self.solver_s, 3),
            'solver_queries': self.queries,
            'vacuity': self.vacuity,
            'counters': self.counters,
            'known_findings_hit': [k for k, _ in self.known_hits],
            'harness_errors': self.harness_errors,
        }
        if self.exhaustive is not None:
            cov['exhaustive'] = bool(self.exhaustive)
        if self.level == 'translation_validation':
            cov['programs'] = self.extra.pop('programs', self.counters.get('programs', 0)) or 1
            cov['disagreements_checked'] = len(self.violations) + len(self.known_hits) + self.inconclusive
        if self.level == 'model_checking':
            cov['states'] = max(self.extra.pop('states', self.counters.get('paths', 0)), 1)
            cov['transitions'] = max(self.extra.pop('transitions', self.counters.get('forks', 0) + self.counters.get('paths', 0)), 1)
            cov['traces_validated_against_impl'] = self.extra.pop('traces_validated', self.counters.get('differential_runs', 0))
        cov.update(self.extra)
        ev = {
            'property_id': self.pid,
            'tier': self.tier,
            'seed': int(self.seed),
            'level': self.level,
            'coverage': cov,
            'assumptions': self.assumptions,
            'wall_s': round(wall, 2),
            'violations': len(self.violations),
        }
        evdir = os.environ.get('VERIF_EVIDENCE_DIR') or os.path.join(ROOT, 'evidence')
        os.makedirs(evdir, exist_ok=True)
        path = os.path.join(evdir, self.pid + '.json')
        with open(path, 'w') as f:
            json.dump(ev, f, indent=1, default=str)
        print('%s tier=%s obligations=%d discharged=%d inconclusive=%d violations=%d known=%d harness_errors=%d '
              'solver=%.1fs wall=%.1fs' % (self.pid, self.tier, self.obligations, self.discharged, self.inconclusive,
                                           len(self.violations), len(self.known_hits), len(self.harness_errors),
                                           self.solver_s, wall))
        for h in self.harness_errors[:10]:
            print('HARNESS-ERROR', h)
        if self.violations:
            return EXIT_VIOLATION
        if self.harness_errors:
            return EXIT_HARNESS
        return EXIT_OK


def run_replay(path, timeout=300):
    env = dict(os.environ)
    env['PYTHONWARNINGS'] = 'ignore'
    env['PYTHONDONTWRITEBYTECODE'] = '1'
    # The script runs with /verif importable; exit 1 must come from the script's own sys.exit(1): an uncaught exception
    # (which Python also turns into exit status 1) is a crashed replay (status 4), never a reproduced violation.
    env['PYTHONPATH'] = ROOT + os.pathsep + env.get('PYTHONPATH', '')
    runner = ('import runpy, sys, traceback\n'
              'sys.argv = [%r]\n'
              'try:\n'
              '    runpy.run_path(%r, run_name="__main__")\n'
              'except SystemExit:\n'
              '    raise\n'
              'except BaseException:\n'
              '    traceback.print_exc()\n'
              '    sys.stdout.flush(); sys.exit(4)\n' % (path, path))
    try:
        p = subprocess.run([PY, '-c', runner], capture_output=True, text=True, timeout=timeout, env=env, cwd=ROOT)
        return p.returncode, p.stdout + p.stderr
    except subprocess.TimeoutExpired:
        return 3, 'timeout'


def scratch_dir():
    import tempfile
    return tempfile.mkdtemp(prefix='sfcverif_')
