"""Entry point: python -m vf.run <PID> [quick|thorough]"""
import importlib
import os
import sys
import traceback
import warnings

warnings.filterwarnings('ignore')


def main():
    args = [a for a in sys.argv[1:] if not a.startswith('--')]
    if not args:
        print('usage: check <property-id> [quick|thorough]')
        sys.exit(2)
    pid = args[0].upper()
    tier = args[1] if len(args) > 1 else os.environ.get('VERIF_TIER', 'quick')
    if tier not in ('quick', 'thorough'):
        tier = 'quick'
    try:
        seed = int(os.environ.get('VERIF_SEED', '0'))
    except ValueError:
        seed = 0
    if '--replay' in sys.argv:
        path = sys.argv[sys.argv.index('--replay') + 1]
        from vf.common import run_replay
        rc, out = run_replay(path)
        print(out)
        print('replay exit code %d (1 = violation reproduces)' % rc)
        sys.exit(rc)
    try:
        mod = importlib.import_module('vf.props.' + pid.lower())
        rc = mod.run(tier, seed)
    except SystemExit:
        raise
    except BaseException:
        traceback.print_exc()
        print('HARNESS-ERROR: check crashed')
        rc = 2
    sys.stdout.flush()
    sys.exit(rc)


if __name__ == '__main__':
    main()
