"""Generated family of alias-chain blocks for the k=0 clause of C03 (used by c03_gen_h.py)."""
import itertools

ROOTS = ('const', 'exo', 'lag', 'dyn', 'ic')
ORDERS = ('target-first', 'target-last', 'mixed')


def chain(i, root, order, depth):
    """lines of one alias chain t<i> <- b<i> <- a<i> <- w<i> (depth 2..3), rooted in `root`, written in `order`; returns (root lines, alias lines, tail lines)."""
    t, b, a, w = 't%d' % i, 'b%d' % i, 'a%d' % i, 'w%d' % i
    if root == 'const':
        rl = ['%s = 5.' % t]
    elif root == 'exo':
        rl = ['%s = G' % t]
    elif root == 'lag':
        rl = ['%s = q%d(k-1)' % (t, i), 'q%d = 0.25*%s + G' % (i, t)]
    elif root == 'dyn':
        rl = ['%s = 0.5*LT%d + G' % (t, i), 'LT%d = %s(k-1)' % (i, t)]
    else:
        rl = ['%s = 0.5*LT%d + G' % (t, i), 'LT%d = %s(k-1)' % (i, t), '%s(0) = SYM_IC' % t]
    al = ['%s = %s' % (b, t), '%s = %s' % (a, b)]
    last = a
    if depth == 3:
        al.append('%s = %s' % (w, a))
        last = w
    if order == 'target-first':
        lines = rl + al
    elif order == 'target-last':
        lines = list(reversed(al)) + rl
    else:
        lines = [al[-1]] + rl + al[:-1]
    return lines, last


def gen_blocks():
    out = []
    for r1, o1 in itertools.product(ROOTS, ORDERS):
        l1, last1 = chain(1, r1, o1, 3)
        out.append(('single:%s:%s' % (r1, o1), l1 + ['LW1 = %s(k-1)' % last1, 'y = 0.5*LY + 0.5*LW1 + G', 'LY = y(k-1)', 'z1 = a1 + 1']))
    pairs = [('const', 'dyn'), ('dyn', 'const'), ('exo', 'dyn'), ('ic', 'const'), ('lag', 'dyn'), ('const', 'const'), ('dyn', 'ic'), ('const', 'lag'), ('ic', 'dyn')]
    for (r1, r2), (o1, o2) in itertools.product(pairs, (('target-first', 'target-first'), ('target-first', 'target-last'), ('target-last', 'target-first'), ('mixed', 'target-first'))):
        l1, last1 = chain(1, r1, o1, 3)
        l2, last2 = chain(2, r2, o2, 2)
        for where in ('chains-then-users', 'users-between'):
            users1 = ['LW1 = %s(k-1)' % last1, 'y = 0.5*LY + 0.5*LW1 + t2', 'LY = y(k-1)']
            users2 = ['s2 = %s + 1' % last2]
            lines = l1 + users1 + l2 + users2 if where == 'users-between' else l1 + l2 + users1 + users2
            out.append(('pair:%s/%s:%s/%s:%s' % (r1, r2, o1, o2, where), lines))
    return [(n, '\n'.join(l + ['exogenous', 'G = SYM_G'])) for n, l in out]
