"""CrossHair harnesses for C03, period k=0: the real SetInitialConditions with reduction on and off must produce the same
time-zero value for every variable (symbolic initial-condition and exogenous values injected through eval globals)."""
import sfc_models.equation_solver as ES
from sfc_models.equation_solver import EquationSolver

BLOCKS = (
    "x = y\nz = x + 1\ny = 0.5*y + G\nx(0) = SYM_IC\nexogenous\nG = SYM_G",          # alias with its own initial condition
    "x = y\nz = x + 1\ny = 0.5*y + G\ny(0) = SYM_IC\nexogenous\nG = SYM_G",          # initial condition on the alias target
    "x = G\nz = x + 1\nw = 0.5*w + z\nw(0) = SYM_IC\nexogenous\nG = SYM_G",          # alias of an exogenous variable
    "x = L\nz = x + 1\nL = w(k-1)\nw = 0.5*w + G\nL(0) = SYM_IC\nexogenous\nG = SYM_G",   # alias of a lagged variable
    "c = 3.0\nx = c\nd = 2*x\ne1 = d + G\nw = 0.5*w + c\nd(0) = SYM_IC\nexogenous\nG = SYM_G",    # alias of a constant, decorative chain
    "a = b\nb = c\nc = 0.5*c + G\nd = a + b\nb(0) = SYM_IC\nexogenous\nG = SYM_G",   # alias chain, condition in the middle
    "x = y\ny = 2.5\nz = x*y\nz(0) = SYM_IC\nexogenous\nG = SYM_G",                   # constant behind an alias
    "x = xx\nxx = 0.5*x_1 + G\nx_1 = x\nd = x + xx\nxx(0) = SYM_IC\nexogenous\nG = SYM_G",   # prefix-sharing names
    "n = 4\nx = n\nz = x*2\nm = 3 + 1\nw = 0.5*w + G\nw(0) = SYM_IC\nexogenous\nG = SYM_G",          # integer-valued constants behind aliases
    "a = H\nb = a\nc = 2*H\nw = 0.5*w + G + b\nw(0) = SYM_IC\nexogenous\nG = SYM_G\nH = [20, 25]",   # exogenous list written with integers
    # a user function (registered with AddFunction before the solve) in equations whose arguments are known at k=0: a constant, a simultaneous
    # variable, and variables nothing depends on (set aside as decorative when reduction is on)
    "c = 3.0\nbase = fn(c)\nshare = fn(G)/100.\nw = 0.5*w + base\nrep = fn(c) + w\nw(0) = SYM_IC\nexogenous\nG = SYM_G",
    # comparison-valued variables nothing depends on (flags computed from a constant / an exogenous value): a Python bool at k=0
    "y = 2.\nflag = y > 1.\nhigh = G > 3.\nw = 0.5*w + G\nw(0) = SYM_IC\nexogenous\nG = SYM_G",
)


def _twice_plus_one(v):
    return 2. * v + 1.


def _k0(block, ic, g):
    ES.SYM_IC = ic
    ES.SYM_G = [g, g]
    out = []
    for reduce in (True, False):
        es = EquationSolver(run_equation_reduction=reduce)
        es.MaxTime = 1
        es.AddFunction('fn', _twice_plus_one)
        es.ParseString(block)
        es.ExtractVariableList()
        es.SetInitialConditions()
        out.append({v: es.TimeSeries[v][0] for v in es.TimeSeries})
    return out


def _same(block, ic, g):
    a, b = _k0(block, ic, g)
    return set(a) == set(b) and all(a[v] == b[v] for v in a)


def check_k0_block0(ic: float, g: float) -> bool:
    """
    pre: -100 <= ic <= 100 and -100 <= g <= 100
    post: _
    """
    return _same(BLOCKS[0], ic, g)


def check_k0_block1(ic: float, g: float) -> bool:
    """
    pre: -100 <= ic <= 100 and -100 <= g <= 100
    post: _
    """
    return _same(BLOCKS[1], ic, g)


def check_k0_block2(ic: float, g: float) -> bool:
    """
    pre: -100 <= ic <= 100 and -100 <= g <= 100
    post: _
    """
    return _same(BLOCKS[2], ic, g)


def check_k0_block3(ic: float, g: float) -> bool:
    """
    pre: -100 <= ic <= 100 and -100 <= g <= 100
    post: _
    """
    return _same(BLOCKS[3], ic, g)


def check_k0_block4(ic: float, g: float) -> bool:
    """
    pre: -100 <= ic <= 100 and -100 <= g <= 100
    post: _
    """
    return _same(BLOCKS[4], ic, g)


def check_k0_block5(ic: float, g: float) -> bool:
    """
    pre: -100 <= ic <= 100 and -100 <= g <= 100
    post: _
    """
    return _same(BLOCKS[5], ic, g)


def check_k0_block6(ic: float, g: float) -> bool:
    """
    pre: -100 <= ic <= 100 and -100 <= g <= 100
    post: _
    """
    return _same(BLOCKS[6], ic, g)


def check_k0_block7(ic: float, g: float) -> bool:
    """
    pre: -100 <= ic <= 100 and -100 <= g <= 100
    post: _
    """
    return _same(BLOCKS[7], ic, g)


def check_k0_block8(ic: float, g: float) -> bool:
    """
    pre: -100 <= ic <= 100 and -100 <= g <= 100
    post: _
    """
    return _same(BLOCKS[8], ic, g)


def check_k0_block9(ic: float, g: float) -> bool:
    """
    pre: -100 <= ic <= 100 and -100 <= g <= 100
    post: _
    """
    return _same(BLOCKS[9], ic, g)


def check_k0_block10(ic: float, g: float) -> bool:
    """
    pre: -100 <= ic <= 100 and -100 <= g <= 100
    post: _
    """
    return _same(BLOCKS[10], ic, g)


def check_k0_block11(ic: float, g: float) -> bool:
    """
    pre: -100 <= ic <= 100 and -100 <= g <= 100
    post: _
    """
    return _same(BLOCKS[11], ic, g)


def reach_k0(ic: float, g: float) -> bool:
    """
    pre: -100 <= ic <= 100 and -100 <= g <= 100
    post: not (_ and ic > 1 and g < -1)
    """
    a, b = _k0(BLOCKS[1], ic, g)
    return a['y'] == ic
