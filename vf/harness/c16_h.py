"""CrossHair harnesses for C16 (reading results never changes them). Real API: Model.GetTimeSeries,
TimeSeriesHolder.GenerateCSVtext, EquationSolver.GenerateCSVtext, BaseSolver.CreateCsvString."""
from typing import List, Optional

from sfc_models.models import Model
from sfc_models.utils import TimeSeriesHolder
from sfc_models.base_solver import BaseSolver
from sfc_models.equation_solver import EquationSolver


def _expected(data, cutoff, suppress):
    exp = list(data) if cutoff is None else list(data[0:cutoff + 1])
    if suppress:
        exp = exp[1:]
    return exp


def _gts(data, cutoff, suppress, n_calls, mutate, group, via_attr, maxtime=None):
    mod = Model()
    if maxtime is not None:
        mod.MaxTime = maxtime          # the model's own horizon: stored groups may be longer (step trace, steady-state search, solver-level horizon)
    holder = TimeSeriesHolder('k')
    holder['x'] = list(data)
    gname = ('main', 'step', 'initial')[group]
    if group == 0:
        mod.EquationSolver.TimeSeries = holder
    elif group == 1:
        mod.EquationSolver.TimeSeriesStepTrace = holder
    else:
        mod.EquationSolver.TimeSeriesInitialSteadyState = holder
    mod.TimeSeriesSupressTimeZero = suppress
    if via_attr:
        mod.TimeSeriesCutoff = cutoff
    before = list(data)
    exp = _expected(before, cutoff, suppress)
    for i in range(n_calls):
        r = mod.GetTimeSeries('x', cutoff=None if via_attr else cutoff, group_of_series=gname)
        if list(r) != exp:
            return False
        if mutate:
            r.append(7)
            if len(r) > 1:
                r[0] = 99
    return holder['x'] == before


def check_get_timeseries_main(data: List[int], cutoff: Optional[int], suppress: bool, n_calls: int, mutate: bool) -> bool:
    """
    pre: 1 <= len(data) <= 4
    pre: cutoff is None or 0 <= cutoff <= 5
    pre: 1 <= n_calls <= 3
    post: _
    """
    return _gts(data, cutoff, suppress, n_calls, mutate, 0, False)


def check_get_timeseries_groups(data: List[int], cutoff: Optional[int], suppress: bool, group: int) -> bool:
    """
    pre: 1 <= len(data) <= 3
    pre: cutoff is None or 0 <= cutoff <= 4
    pre: 0 <= group <= 2
    post: _
    """
    return _gts(data, cutoff, suppress, 2, True, group, False)


def check_get_timeseries_any_model_horizon(data: List[int], cutoff: Optional[int], suppress: bool, group: int, maxtime: int, via_attr: bool) -> bool:
    """
    pre: 1 <= len(data) <= 4
    pre: cutoff is None or 0 <= cutoff <= 5
    pre: 0 <= group <= 2
    pre: 0 <= maxtime <= 5
    post: _
    """
    return _gts(data, cutoff, suppress, 2, False, group, via_attr, maxtime)


def check_failed_lookup_leaves_results_alone(n: int, n_bad: int, group: int, direct: bool) -> bool:
    """
    pre: 1 <= n <= 3
    pre: 1 <= n_bad <= 2
    pre: 0 <= group <= 2
    post: _
    """
    # asking for a series that does not exist (a misspelt name) raises KeyError - and changes neither the stored results nor the table rendered from them
    data = [10 + i for i in range(n)]
    mod = Model()
    holder = TimeSeriesHolder('k')
    holder['x'] = list(data)
    holder['k'] = [float(i) for i in range(len(data))]
    gname = ('main', 'step', 'initial')[group]
    if group == 0:
        mod.EquationSolver.TimeSeries = holder
    elif group == 1:
        mod.EquationSolver.TimeSeriesStepTrace = holder
    else:
        mod.EquationSolver.TimeSeriesInitialSteadyState = holder
    text = holder.GenerateCSVtext()
    keys = sorted(holder.keys())
    for i in range(n_bad):
        try:
            if direct:
                holder['xx']
            else:
                mod.GetTimeSeries('xx', group_of_series=gname)
            return False
        except KeyError:
            pass
    return sorted(holder.keys()) == keys and holder.GenerateCSVtext() == text and mod.GetTimeSeries('x', group_of_series=gname) == list(data)


def check_get_timeseries_cutoff_attribute(data: List[int], cutoff: Optional[int], suppress: bool, mutate: bool) -> bool:
    """
    pre: 1 <= len(data) <= 4
    pre: cutoff is None or 0 <= cutoff <= 5
    post: _
    """
    return _gts(data, cutoff, suppress, 2, mutate, 0, True)


def reach_get_timeseries(data: List[int], cutoff: Optional[int], suppress: bool) -> bool:
    """
    pre: 1 <= len(data) <= 4
    post: not (_ and suppress and cutoff is None and len(data) == 3)
    """
    mod = Model()
    mod.EquationSolver.TimeSeries = TimeSeriesHolder('k')
    mod.EquationSolver.TimeSeries['x'] = list(data)
    mod.TimeSeriesSupressTimeZero = suppress
    mod.GetTimeSeries('x', cutoff=cutoff)
    return True


def check_csv_text_repeatable(la: int, lb: int, lk: int, n_calls: int, use_solver: bool) -> bool:
    """
    pre: 0 <= la <= 3 and 0 <= lb <= 3 and 0 <= lk <= 3
    pre: 1 <= n_calls <= 3
    post: _
    """
    h = TimeSeriesHolder('k')
    h['a'] = [10 + i for i in range(la)]
    h['b'] = [20 + i for i in range(lb)]
    h['k'] = [float(i) for i in range(lk)]
    snap = {k: list(v) for k, v in h.items()}
    if use_solver:
        es = EquationSolver()
        es.TimeSeries = h
        render = es.GenerateCSVtext
    else:
        render = h.GenerateCSVtext
    first = render()
    for i in range(n_calls):
        if render() != first:
            return False
    return {k: list(v) for k, v in h.items()} == snap and list(h.keys()) == list(snap.keys())


def reach_csv_text(la: int, lb: int) -> bool:
    """
    pre: 0 <= la <= 3 and 0 <= lb <= 3
    post: not (_ and la == 2 and lb == 3)
    """
    h = TimeSeriesHolder('k')
    h['a'] = [10 + i for i in range(la)]
    h['b'] = [20 + i for i in range(lb)]
    return len(h.GenerateCSVtext()) > 0


def _group(kind: int, n: int) -> TimeSeriesHolder:
    """A series group as the solver fills it: main / initial-steady-state groups are keyed on 'k', the step trace on 'iteration'."""
    name = ('k', 'iteration', 'k')[kind]
    h = TimeSeriesHolder(name)
    h['x'] = [1.5 + i for i in range(n)]
    h['k'] = [float(i) for i in range(n)]
    h['t'] = [1950. + i for i in range(n)]
    if kind == 1:
        h['iteration'] = [float(i) for i in range(n)]
        h['iteration_error'] = [0.5 for i in range(n)]
        h['iteration_abs_change'] = [0.25 for i in range(n)]
    if kind == 2:
        h['y'] = [2.5 for i in range(n)]
    return h


def _pristine_refs():
    """Reference text of every (group, length), each rendered in a process of its own that has rendered nothing else.
    CrossHair explores all paths of a condition in ONE process, so state a renderer leaves behind at class or module level
    survives from path to path; comparing only renderings made inside that process would accept any change that is
    self-consistent after the first perturbation."""
    import os, subprocess, sys
    if os.environ.get('C16_NOREF'):
        return {}
    refs = {}
    env = dict(os.environ, C16_NOREF='1')
    procs = {}
    for g in range(3):
        for n in (1, 2):
            code = 'from vf.harness.c16_h import _group; import sys; sys.stdout.write(_group(%d, %d).GenerateCSVtext())' % (g, n)
            procs[(g, n)] = subprocess.Popen([sys.executable, '-W', 'ignore', '-c', code], env=env, stdout=subprocess.PIPE, stderr=subprocess.DEVNULL)
    for key, pr in procs.items():
        out = pr.communicate()[0].decode()
        if pr.returncode != 0 or not out:
            raise RuntimeError('reference rendering failed for %r' % (key,))
        refs[key] = out
    return refs


_REF = _pristine_refs()


def check_render_interleaved_groups(seq: List[int], n: int) -> bool:
    """
    pre: 1 <= len(seq) <= 4
    pre: all(0 <= g <= 2 for g in seq)
    pre: 1 <= n <= 2
    post: _
    """
    groups = [_group(0, n), _group(1, n), _group(2, n)]
    snap = [{k: list(v) for k, v in g.items()} for g in groups]
    es = EquationSolver()
    es.TimeSeries = groups[0]
    first = {}
    for g in seq:
        text = es.GenerateCSVtext() if g == 0 else groups[g].GenerateCSVtext()
        if g in first and text != first[g]:
            return False                                   # same stored series, different text
        first[g] = text
        if _group(g, n).GenerateCSVtext() != text:         # an identical group renders the same text
            return False
        if _REF[(g, n)] != text:                           # ... also in a process that rendered nothing before
            return False
        cols = text.split(chr(10))[0].split(chr(9))
        if sorted(cols) != sorted(groups[g].keys()):
            return False
    return [{k: list(v) for k, v in g.items()} for g in groups] == snap


WARMUP = {'check_render_interleaved_groups': ['check_render_interleaved_groups(%r, %d)' % (list(q), n) for n in (1, 2) for L in (1, 2, 3)
                                              for q in __import__('itertools').product((0, 1, 2), repeat=L)]}


def reach_render_interleaved_groups(seq: List[int]) -> bool:
    """
    pre: 1 <= len(seq) <= 4
    pre: all(0 <= g <= 2 for g in seq)
    post: not (_ and len(seq) == 3 and seq[0] == 1 and seq[1] == 0 and seq[2] == 1)
    """
    groups = [_group(0, 2), _group(1, 2), _group(2, 2)]
    for g in seq:
        groups[g].GenerateCSVtext()
    return True


def check_create_csv_string(pos_t: int, has_t: bool, n: int, n_calls: int) -> bool:
    """
    pre: 0 <= pos_t <= 2
    pre: 1 <= n <= 3
    pre: 1 <= n_calls <= 3
    post: _
    """
    names = ['a', 'b']
    if has_t:
        names.insert(pos_t, 't')
    s = BaseSolver(list(names))
    for v in names:
        setattr(s, v, [('%s%d' % (v, i)) for i in range(n)])
    first = s.CreateCsvString()
    head = first.split('\n')[0].split('\t')
    if sorted(head) != sorted(names):
        return False
    if has_t and head[0] != 't':
        return False
    for i in range(n_calls):
        if s.CreateCsvString() != first:
            return False
    return s.VariableList == names


def reach_create_csv_string(pos_t: int, n: int) -> bool:
    """
    pre: 0 <= pos_t <= 2
    pre: 1 <= n <= 3
    post: not (_ and pos_t == 1 and n == 2)
    """
    names = ['a', 'b']
    names.insert(pos_t, 't')
    s = BaseSolver(list(names))
    for v in names:
        setattr(s, v, [1] * n)
    return len(s.CreateCsvString()) > 0
