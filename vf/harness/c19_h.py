"""CrossHair harnesses for C19 (tab-delimited output is a faithful table). Real API: TimeSeriesHolder.GetSeriesList /
GenerateCSVtext, EquationSolver.GenerateCSVtext after a real solve."""
from typing import List

from sfc_models.utils import TimeSeriesHolder
import sfc_models.equation_solver as ES
from sfc_models.equation_solver import EquationSolver

PRIORITY = ('iteration', 'iteration_error', 'iteration_abs_change', 'k', 't')     # the documented priority order
POOLS = (
    ('k', 'kk', 't', 't2', 'a', 'B'),
    ('iteration', 'iteration_error', 'iteration_abs_change', 'k', '_z', 'a'),
    ('t', 'iteration_error', 'x', 'X', 'k1', 'k'),
    ('iteration_abs_change', 'iteration', 'T', 'K', 'b', 'a'),
    # qualified names (SECTOR__NAME) whose sector codes are prefixes of one another: plain string order, '_' sorts after digits and capitals
    ('HH__F', 'HH2__F', 'HH_X__F', 'HHa__F', 'k', 'GOVX'),
    ('GOV__T', 'GOV_DEP__r', 'GOVX', 'GOV__T2', 't', 'GOV2__T'),
)


def _header_ok(pool, mask):
    h = TimeSeriesHolder('k')
    chosen = []
    for n, m in zip(pool, mask):
        if m:
            h[n] = [1]
            chosen.append(n)
    txt = h.GenerateCSVtext('%d')
    if not chosen:
        return txt == ''
    lines = txt.split('\n')
    head = lines[0].split('\t')
    want = [p for p in PRIORITY if p in chosen] + sorted(n for n in chosen if n not in PRIORITY)
    return head == want and h.GetSeriesList() == want and len(lines) == 3 and lines[2] == ''


def check_header_pool0(b0: bool, b1: bool, b2: bool, b3: bool, b4: bool, b5: bool) -> bool:
    """ post: _ """
    return _header_ok(POOLS[0], (b0, b1, b2, b3, b4, b5))


def check_header_pool1(b0: bool, b1: bool, b2: bool, b3: bool, b4: bool, b5: bool) -> bool:
    """ post: _ """
    return _header_ok(POOLS[1], (b0, b1, b2, b3, b4, b5))


def check_header_pool2(b0: bool, b1: bool, b2: bool, b3: bool, b4: bool, b5: bool) -> bool:
    """ post: _ """
    return _header_ok(POOLS[2], (b0, b1, b2, b3, b4, b5))


def check_header_pool3(b0: bool, b1: bool, b2: bool, b3: bool, b4: bool, b5: bool) -> bool:
    """ post: _ """
    return _header_ok(POOLS[3], (b0, b1, b2, b3, b4, b5))


def check_header_pool4(b0: bool, b1: bool, b2: bool, b3: bool, b4: bool, b5: bool) -> bool:
    """ post: _ """
    return _header_ok(POOLS[4], (b0, b1, b2, b3, b4, b5))


def check_header_pool5(b0: bool, b1: bool, b2: bool, b3: bool, b4: bool, b5: bool) -> bool:
    """ post: _ """
    return _header_ok(POOLS[5], (b0, b1, b2, b3, b4, b5))


def check_header_after_changes(ops: List[int]) -> bool:
    """
    pre: len(ops) <= 3
    pre: all(0 <= o <= 6 for o in ops)
    post: _
    """
    # a history of: render the table (0), store a new series by item assignment (1-3: three different names), by AppendValue (4), by update() (5),
    # delete one (6) - after every step the header names exactly the stored series, in the documented order
    h = TimeSeriesHolder('k')
    h['k'] = [0., 1.]
    h['x'] = [5., 6.]
    for o in ops:
        if o == 1:
            h['H_TO_Y'] = [1., 2.]
        elif o == 2:
            h['a'] = [3., 4.]
        elif o == 3:
            h['t'] = [0., 1.]
        elif o == 4:
            h.AppendValue('z', 7.)
        elif o == 5:
            h.update({'y': [8., 9.]})
        elif o == 6:
            if 'x' in h:
                del h['x']
        head = h.GenerateCSVtext('%d').split(chr(10))[0].split(chr(9))
        chosen = list(h.keys())
        want = [p for p in PRIORITY if p in chosen] + sorted(n for n in chosen if n not in PRIORITY)
        if head != want or h.GetSeriesList() != want:
            return False
    return True


def reach_header(b0: bool, b1: bool, b2: bool) -> bool:
    """ post: not (_ and b0 and not b1 and b2) """
    return _header_ok(POOLS[0], (b0, b1, b2, False, False, True))


def check_rows(la: int, lb: int, lk: int, fmt: int) -> bool:
    """
    pre: 0 <= la <= 4 and 0 <= lb <= 4 and 0 <= lk <= 4
    pre: 0 <= fmt <= 3
    post: _
    """
    f = ('%d', '%.5g', '%0.2f', '%s')[fmt]
    h = TimeSeriesHolder('k')
    h['a'] = [100 + i for i in range(la)]
    h['b'] = [200 + i for i in range(lb)]
    h['k'] = [300 + i for i in range(lk)]
    txt = h.GenerateCSVtext(f)
    lines = txt.split('\n')
    n = min(la, lb, lk)
    if len(lines) != n + 2 or lines[-1] != '':
        return False
    if lines[0] != 'k\ta\tb':
        return False
    for i in range(n):
        cells = lines[1 + i].split('\t')
        if cells != [f % (300 + i,), f % (100 + i,), f % (200 + i,)]:
            return False
    return h.GenerateCSVtext(f) == txt


def reach_rows(la: int, lb: int, lk: int) -> bool:
    """
    pre: 0 <= la <= 4 and 0 <= lb <= 4 and 0 <= lk <= 4
    post: not (_ and la == 4 and lb == 2 and lk == 3)
    """
    h = TimeSeriesHolder('k')
    h['a'] = [100 + i for i in range(la)]
    h['b'] = [200 + i for i in range(lb)]
    h['k'] = [300 + i for i in range(lk)]
    return len(h.GenerateCSVtext('%d')) > 0


BLK = "x = G + 1\nL = x(k-1)\nd = x + L\nexogenous\nG = SYM_G"


# lines the parser accepts (or reports) that define no variable of the system: the table must still be exactly the system's variables x horizon+1 rows
EXTRA = ('', 'w(0) = 3.', 'x (0) = 1.', 'oops no equals', 'a = b = c', 'Err_Tolerance = 1e-5', '# w = 4', 'G(0) = 5.', 'L(0) = 2.')


def check_rows_after_solve_extra_line(T: int, reduce: bool, extra: int) -> bool:
    """
    pre: 0 <= T <= 2
    pre: 1 <= extra <= 8
    post: _
    """
    return _rows_after_solve(T, T + 1, reduce, extra)


def check_rows_after_solve(T: int, n: int, reduce: bool) -> bool:
    """
    pre: 0 <= T <= 3
    pre: 0 <= n <= 5
    post: _
    """
    return _rows_after_solve(T, n, reduce, 0)


def _rows_after_solve(T, n, reduce, extra):
    ES.SYM_G = [float(i) for i in range(n)]
    es = EquationSolver(run_equation_reduction=reduce)
    es.MaxTime = T
    es.ParseString(BLK.replace('exogenous', EXTRA[extra] + chr(10) + 'exogenous'))
    try:
        es.SolveEquation()
    except ValueError:
        return n < T + 1
    if n < T + 1:
        return False
    # reading results back - including a request for a name that is not a series, which raises KeyError - does not change the table
    try:
        es.TimeSeries['no_such_series']
        return False
    except KeyError:
        pass
    lines = es.GenerateCSVtext().split('\n')
    head = lines[0].split('\t')
    if head != ['k', 't', 'G', 'L', 'd', 'x']:
        return False
    if len(lines) != T + 3 or lines[-1] != '':
        return False
    for i in range(T + 1):
        cells = lines[1 + i].split('\t')
        if len(cells) != 6 or cells[0] != '%.5g' % (float(i),) or cells[2] != '%.5g' % (float(i),):
            return False
    return True


def _table_reads_plain(T, ops):
    # the table of a Model's solver after a history of reads through Model.GetTimeSeries (series x / d / k, time zero suppressed or not, no cut-off /
    # cut-off argument; the cut-off attribute kind needs o >= 12 and is outside the quick bound): still T+1 data rows under the same header, every cell as straight after the solve
    from sfc_models.models import Model
    ES.SYM_G = [float(i) for i in range(T + 1)]
    mod = Model()
    es = EquationSolver(run_equation_reduction=True)
    es.MaxTime = T
    es.ParseString(BLK)
    es.SolveEquation()
    mod.EquationSolver = es
    first = es.GenerateCSVtext()
    if len(first.split(chr(10))) != T + 3:
        return False
    for o in ops:
        mod.TimeSeriesSupressTimeZero = bool(o % 2)
        name = ('x', 'd', 'k')[(o // 2) % 3]
        how = o // 6
        mod.TimeSeriesCutoff = 1 if how == 2 else None
        r = mod.GetTimeSeries(name, cutoff=1) if how == 1 else mod.GetTimeSeries(name)
        r.append(77.)
        if es.GenerateCSVtext() != first:
            return False
    return True


def reach_table_after_model_reads(o1: int, o2: int, two: bool) -> bool:
    """
    pre: 0 <= o1 <= 11 and 0 <= o2 <= 11
    post: not (_ and two and o1 == 11)
    """
    return _table_reads_plain(2, [o1, o2] if two else [o1])


def check_table_after_model_reads(o1: int, o2: int, two: bool) -> bool:
    """
    pre: 0 <= o1 <= 11 and 0 <= o2 <= 11
    post: _
    """
    # horizon 2 (the symbolic horizon is the subject of check_rows_after_solve); one or two reads, each of 12 kinds
    return _table_reads_plain(2, [o1, o2] if two else [o1])


def reach_rows_after_solve(T: int, n: int) -> bool:
    """
    pre: 0 <= T <= 3
    pre: 0 <= n <= 5
    post: not (_ and T == 3 and n == 5)
    """
    ES.SYM_G = [float(i) for i in range(n)]
    es = EquationSolver(run_equation_reduction=True)
    es.MaxTime = T
    es.ParseString(BLK)
    try:
        es.SolveEquation()
    except ValueError:
        return False
    return True
