"""CrossHair harnesses for C10 (exogenous paths, initial conditions and horizon honoured verbatim).
Symbolic values enter the string API through names injected into the solver module's eval globals."""
from typing import List, Optional, Tuple

import sfc_models.equation_solver as ES
from sfc_models.equation_solver import EquationSolver

B_ENDO = "x = G\nL = x(k-1)\nd = x + 1\nx(0) = SYM_IC\nexogenous\nG = SYM_G"
B_LAG = "x = G\nL = x(k-1)\nd = L\nL(0) = SYM_IC\nexogenous\nG = SYM_G"
B_DECO = "x = G\nL = x(k-1)\nd = x + 1\nd(0) = SYM_IC\nexogenous\nG = SYM_G"
B_CONST = "c = 3.0\nx = G\ny = c\nL = x(k-1)\nc(0) = SYM_IC\nexogenous\nG = SYM_G"
B_TIME = "x = G\nt = k + 10\nL = t(k-1)\nexogenous\nG = SYM_G"
B_MAXT = "x = G\nL = x(k-1)\nexogenous\nG = SYM_G\nMaxTime = 2"


def _solve(block, g, ic, T, reduce):
    ES.SYM_G = g
    ES.SYM_IC = ic
    es = EquationSolver(run_equation_reduction=reduce)
    if T is not None:
        es.MaxTime = T
    es.ParseString(block)
    es.SolveEquation()
    return es


def _common(ts, g, T, time_default=True):
    ok = all(len(ts[v]) == T + 1 for v in ts)
    ok = ok and ts['G'] == list(g[0:T + 1])
    ok = ok and all(ts['k'][k] == k for k in range(0, T + 1))
    if time_default:
        ok = ok and all(ts['t'][k] == k for k in range(1, T + 1))
    return ok


def check_ic_lagged_reduced(g: List[float], ic: float, T: int) -> bool:
    """
    pre: 0 <= T <= 2
    pre: len(g) <= 3
    pre: all(-100 <= v <= 100 for v in g) and -100 <= ic <= 100
    post: _
    """
    try:
        es = _solve(B_LAG, g, ic, T, True)
    except ValueError:
        return len(g) < T + 1
    if len(g) < T + 1:
        return False
    ts = es.TimeSeries
    return _common(ts, g, T) and ts['L'][0] == ic and all(ts['L'][k] == ts['x'][k - 1] for k in range(1, T + 1))


def check_ic_decorative_reduced(g: List[float], ic: float, T: int) -> bool:
    """
    pre: 0 <= T <= 2
    pre: len(g) <= 3
    pre: all(-100 <= v <= 100 for v in g) and -100 <= ic <= 100
    post: _
    """
    try:
        es = _solve(B_DECO, g, ic, T, True)
    except ValueError:
        return len(g) < T + 1
    if len(g) < T + 1:
        return False
    ts = es.TimeSeries
    return _common(ts, g, T) and ts['d'][0] == ic


def check_scalar_broadcast_reduced(s: float, T: int) -> bool:
    """
    pre: 0 <= T <= 3
    pre: -100 <= s <= 100
    post: _
    """
    es = _solve(B_DECO, s, 1.5, T, True)
    ts = es.TimeSeries
    return all(len(ts[v]) == T + 1 for v in ts) and ts['G'] == [s] * (T + 1) and ts['d'][0] == 1.5


def check_tuple_exogenous(a: float, b: float, c: float, T: int) -> bool:
    """
    pre: 0 <= T <= 3
    pre: -100 <= a <= 100 and -100 <= b <= 100 and -100 <= c <= 100
    post: _
    """
    g = (a, b, c)
    try:
        es = _solve(B_DECO, g, 0.5, T, True)
    except ValueError:
        return T + 1 > 3
    if T + 1 > 3:
        return False
    ts = es.TimeSeries
    return _common(ts, g, T) and ts['d'][0] == 0.5


def check_user_time_reduced(g: List[float], T: int) -> bool:
    """
    pre: 0 <= T <= 2
    pre: len(g) <= 3
    pre: all(-100 <= v <= 100 for v in g)
    post: _
    """
    try:
        es = _solve(B_TIME, g, 0.0, T, True)
    except ValueError:
        return len(g) < T + 1
    if len(g) < T + 1:
        return False
    ts = es.TimeSeries
    return (_common(ts, g, T, time_default=False) and all(ts['t'][k] == k + 10 for k in range(1, T + 1))
            and all(ts['L'][k] == ts['t'][k - 1] for k in range(1, T + 1)))


def check_maxtime_line(g: List[float], N: Optional[int]) -> bool:
    """
    pre: len(g) <= 4
    pre: all(-100 <= v <= 100 for v in g)
    pre: N is None or 0 <= N <= 3
    post: _
    """
    # the block says MaxTime = 2; a horizon set on the solver beforehand (any value, 0 = "only the initial period") takes precedence
    T = 2 if N is None else N
    try:
        es = _solve(B_MAXT, g, 0.0, N, True)
    except ValueError:
        return len(g) < T + 1
    if len(g) < T + 1:
        return False
    return _common(es.TimeSeries, g, T)


def check_maxtime_set_after_parse(g: List[float], N: int, twice: bool) -> bool:
    """
    pre: len(g) <= 3
    pre: all(-100 <= v <= 100 for v in g)
    pre: 0 <= N <= 3
    post: _
    """
    # the block is parsed by the constructor (MaxTime = 2 in the text); the attribute is changed afterwards
    ES.SYM_G = g
    ES.SYM_IC = 0.0
    es = EquationSolver(B_MAXT)
    es.MaxTime = N
    try:
        es.SolveEquation()
        if twice:
            es.SolveEquation()
    except ValueError:
        return len(g) < 3 or len(g) < N + 1
    H = es.Parser.MaxTime            # whatever horizon the solver reports, every series must agree with it
    if len(g) < H + 1:
        return False
    return _common(es.TimeSeries, g, H)


def check_bad_values_rejected(which: int, T: int) -> bool:
    """
    pre: 0 <= which <= 13
    pre: 0 <= T <= 2
    post: _
    """
    blocks = ("x = G\nx(0) = undefined_name\nexogenous\nG = [1.,2.,3.]",
              "x = G\nexogenous\nG = undefined_name",
              "x = G\nx(0) = 1/0\nexogenous\nG = [1.,2.,3.]",
              "x = G\nexogenous\nG = 1/0",
              # an exogenous value stated in terms of another variable of the block (an earlier / later exogenous series, a variable with an
              # initial condition, an endogenous variable, the time step) cannot be evaluated either
              "x = G + H\nexogenous\nG = [1.,2.,3.]\nH = G",
              "x = G + H\nexogenous\nH = G\nG = [1.,2.,3.]",
              "x = G + H\nL = x(k-1)\nx(0) = 7.\nexogenous\nG = [1.,2.,3.]\nH = 2.*x",
              "x = G + H\ny = 3.0\nexogenous\nG = [1.,2.,3.]\nH = [y, y, y]",
              "x = G + H\nexogenous\nG = [1.,2.,3.]\nH = [k, k, k]",
              # an initial value that cannot be evaluated, stated for an exogenous / lagged / decorative variable
              "x = G\nG(0) = undefined_name\nexogenous\nG = [1.,2.,3.]",
              "x = G\nG(0) = 1./0.\nexogenous\nG = [1.,2.,3.]",
              "x = G\nexogenous\nG = [1.,2.,3.]\nG(0) = [1., 2.]",
              "x = G\nL = x(k-1)\nL(0) = undefined_name\nexogenous\nG = [1.,2.,3.]",
              "x = G\nd = x + 1\nd(0) = 3. +\nexogenous\nG = [1.,2.,3.]")
    es = EquationSolver()
    es.MaxTime = T
    es.ParseString(blocks[which])
    try:
        es.SolveEquation()
    except ValueError:
        return True
    return False


def reach_solve(g: List[float], ic: float, T: int) -> bool:
    """
    pre: 0 <= T <= 2
    pre: len(g) <= 3
    post: not (_ and T == 2 and len(g) == 3)
    """
    try:
        _solve(B_DECO, g, ic, T, True)
    except ValueError:
        return False
    return True
