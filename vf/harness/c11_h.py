"""CrossHair harnesses for C11 (ill-formed names are refused before any numbers are produced): the NAME is the symbolic input.
Every local variable name that contains the separator '__' anywhere (front, middle, end, once or several times) is refused by
every public way of declaring a variable in a sector; the twin shows that names without the separator are accepted."""
from sfc_models.models import Model, Country
from sfc_models.sector import Sector
from sfc_models.equation import Equation
from sfc_models.utils import LogicError

ALPHABET = 'ab_1'


def _declare(route, name):
    m = Model()
    c = Country(m, 'CA')
    s = Sector(c, 'HH')
    if route == 0:
        s.AddVariable(name, 'symbolic name', '2.0')
    elif route == 1:
        s.AddVariableFromEquation(Equation(name, 'symbolic name', '2.0'))
    else:
        s.AddCashFlow('+' + name, eqn='2.0', desc='symbolic name')
    return m


def _refused(route, name):
    try:
        m = _declare(route, name)
        m.MaxTime = 1
        m.main()
    except Exception:        # any error counts as a refusal (CrossHair`s own control exceptions are BaseException)
        return True
    return False


def check_separator_refused_route0_once(a: str, b: str) -> bool:
    """
    pre: len(a) <= 2 and len(b) <= 2
    pre: all(ch in 'a_1' for ch in a + b)
    post: _
    """
    return _refused(0, a + '__' + b)


def check_separator_refused_route0_twice(a: str, b: str, c: str) -> bool:
    """
    pre: len(a) <= 2 and len(b) <= 2 and len(c) <= 1
    pre: all(ch in 'a_1' for ch in a + b + c)
    post: _
    """
    return _refused(0, a + '__' + b + '__' + c)


def check_separator_refused_route1_once(a: str, b: str) -> bool:
    """
    pre: len(a) <= 2 and len(b) <= 2
    pre: all(ch in 'a_1' for ch in a + b)
    post: _
    """
    return _refused(1, a + '__' + b)


def check_separator_refused_route1_twice(a: str, b: str, c: str) -> bool:
    """
    pre: len(a) <= 2 and len(b) <= 2 and len(c) <= 1
    pre: all(ch in 'a_1' for ch in a + b + c)
    post: _
    """
    return _refused(1, a + '__' + b + '__' + c)


def check_separator_refused_route2_once(a: str, b: str) -> bool:
    """
    pre: len(a) <= 1 and len(b) <= 1
    pre: all(ch in 'a_' for ch in a + b)
    post: _
    """
    return _refused(2, a + '__' + b)


def check_separator_refused_route2_twice(a: str, b: str, c: str) -> bool:
    """
    pre: len(a) <= 1 and len(b) <= 1 and len(c) <= 1
    pre: all(ch in 'a_' for ch in a + b + c)
    post: _
    """
    return _refused(2, a + '__' + b + '__' + c)


def reach_name_without_separator_accepted(a: str, route: int) -> bool:
    """
    pre: 0 <= route <= 2
    pre: 1 <= len(a) <= 2
    pre: all(ch in 'ab' for ch in a)
    post: _
    """
    return _refused(route, a)
