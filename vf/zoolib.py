"""Shared scaffolding for the E1 checks that run over the topology zoo."""
import time

import z3

from vf import zoo as Z
from vf.emit import emit, xr_names
from vf.eqsmt import System, Decider, literal_params, val_fraction, Untranslatable


def full_model(model, S):
    out = {}
    for (name, per), v in S.V.items():
        out['%s@%s' % (name, per)] = str(val_fraction(model.eval(v, model_completion=True)))
    return out


def param_names(plan, ctx, em):
    names = []
    for key, local in plan.params:
        if key in ctx.objs and local in ctx[key].EquationBlock:
            names.append(ctx[key].GetVariableName(local))
    return literal_params(em.parser, names)


class Setup(object):
    def __init__(self, plan, order=None, rename=None, periods=('a', 'b')):
        self.plan = plan
        self.ctx = Z.build(plan, order=order, rename=rename)
        self.em = emit(self.ctx)
        self.ok = bool(self.em.text)
        self.untranslatable = None
        if not self.ok:
            return
        self.params = param_names(plan, self.ctx, self.em)
        self.S = System(self.em.parser, self.params)
        try:
            self.cons = self.S.period('a') + self.S.period('b', 'a')
        except Untranslatable as e:
            self.untranslatable = str(e)
            return
        self.pos = []
        for x in xr_names(self.ctx.model):
            self.pos += [self.S.var(x, 'a') > 0, self.S.var(x, 'b') > 0]
        self.D = Decider(timeout_ms=60000)

    def base_rec(self):
        rec = {'plan': self.plan.name, 'obs': [], 'features': sorted(self.plan.features)}
        if not self.ok:
            rec['build_error'] = repr(self.em.err)
        elif self.untranslatable:
            rec['untranslatable'] = self.untranslatable
        else:
            rec['n_eq'] = len(self.S.endo)
            rec['params'] = sorted(self.params)
        return rec

    def entail(self, goal, extra=()):
        """cons, pos, extra |= goal ; returns verdict, model"""
        return self.D.decide(self.cons + self.pos + list(extra) + [z3.Not(goal)])

    def finish(self, rec):
        rec['rungs'] = self.D.rungs
        rec['solver_s'] = self.D.solver_s
        rec['queries'] = self.D.queries
        return rec


def absorb(chk, res, on_ob):
    """Fold worker records into the Check."""
    for st, rec in res:
        if st != 'ok':
            chk.harness_errors.append('worker failed: ' + rec[:600])
            continue
        chk.count('programs')
        if 'build_error' in rec:
            chk.harness_errors.append('topology %s does not build: %s' % (rec['plan'], rec['build_error']))
            continue
        if 'untranslatable' in rec:
            chk.ob('unknown', '%s: %s' % (rec['plan'], rec['untranslatable']))
            continue
        if 'reach' in rec:
            chk.witness(rec['reach'] == 'sat', 'system of %s satisfiable' % rec['plan'])
        for ob in rec['obs']:
            on_ob(rec, ob)
        for k, v in rec.get('rungs', {}).items():
            chk.count('rung:' + k, v)
        chk.solver_s += rec.get('solver_s', 0.0)
        chk.queries += rec.get('queries', 0)


EXACT_REPLAY_HEAD = '''
import sys
from fractions import Fraction as F
from vf.replaylib import get_plan, check_period
from vf import zoo as Z
from vf.emit import emit
plan = get_plan(%(plan)r)
ctx = Z.build(plan)
em = emit(ctx)
vals = %(cex)r
params = {k[:-2]: F(v) for k, v in vals.items() if k.endswith('@*')}
per = lambda p: dict({k[:-2]: F(v) for k, v in vals.items() if k.endswith('@' + p)}, **params)
a, b = per('a'), per('b')
bad = check_period(em.parser, b, a, params) + check_period(em.parser, a, None, params)
if bad:
    print('witness does not satisfy the emitted equations:', bad[:5]); sys.exit(0)
'''
