"""Shared scaffolding for the E1 checks that run over the topology zoo."""
import time

import z3

from vf import zoo as Z
from vf.emit import emit, xr_names
from vf.eqsmt import System, Decider, literal_params, val_fraction, Untranslatable


def full_model(model, S):
    out = {}
    for (name, per), v in S.V.items():
        out['%s@%s' % (name, per)] = str(val_fraction(model.eval(v, model_completion=True)))
    return out


def param_names(plan, ctx, em):
    names = []
    for key, local in plan.params:
        if key in ctx.objs and local in ctx[key].EquationBlock:
            names.append(ctx[key].GetVariableName(local))
    return literal_params(em.parser, names)


class Setup(object):
    def __init__(self, plan, order=None, rename=None, periods=('a', 'b'), order_tag='canonical'):
        self.plan = plan
        self.order = list(order) if order is not None else None
        self.order_tag = order_tag
        self.ctx = Z.build(plan, order=order, rename=rename)
        self.em = emit(self.ctx)
        self.ok = bool(self.em.text)
        self.untranslatable = None
        if not self.ok:
            return
        self.params = param_names(plan, self.ctx, self.em)
        self.S = System(self.em.parser, self.params)
        try:
            self.cons = self.S.period('a') + self.S.period('b', 'a')
        except Untranslatable as e:
            self.untranslatable = str(e)
            return
        self.pos = []
        for x in xr_names(self.ctx.model):
            self.pos += [self.S.var(x, 'a') > 0, self.S.var(x, 'b') > 0]
        self.D = Decider(timeout_ms=60000)

    def base_rec(self):
        rec = {'plan': self.plan.name, 'obs': [], 'features': sorted(self.plan.features), 'order': self.order, 'order_tag': self.order_tag}
        if not self.ok:
            rec['build_error'] = repr(self.em.err)
        elif self.untranslatable:
            rec['untranslatable'] = self.untranslatable
        else:
            rec['n_eq'] = len(self.S.endo)
            rec['params'] = sorted(self.params)
        return rec

    def entail(self, goal, extra=()):
        """cons, pos, extra |= goal ; returns verdict, model.  Every XCHECK_EVERY-th obligation is re-decided by cvc5 (second
        opinion through SMT-LIB text); a definite disagreement is a harness error."""
        assertions = self.cons + self.pos + list(extra) + [z3.Not(goal)]
        v, m = self.D.decide(assertions)
        self.n_ob = getattr(self, 'n_ob', 0) + 1
        if v in ('sat', 'unsat') and self.n_ob % XCHECK_EVERY[0] == 1:
            from vf.eqsmt import cvc5_check
            t0 = time.time()
            c = cvc5_check(assertions, 5000)
            self.xchecked = getattr(self, 'xchecked', 0) + 1
            self.xcheck_s = getattr(self, 'xcheck_s', 0.0) + time.time() - t0
            if c in ('sat', 'unsat') and c != v:
                self.xdisagree = getattr(self, 'xdisagree', []) + ['z3 %s vs cvc5 %s on %s' % (v, c, str(goal)[:200])]
        return v, m

    def finish(self, rec):
        rec['cvc5_crosschecked'] = getattr(self, 'xchecked', 0)
        rec['cvc5_disagreements'] = getattr(self, 'xdisagree', [])
        rec['rungs'] = self.D.rungs
        rec['solver_s'] = self.D.solver_s
        rec['queries'] = self.D.queries
        return rec


XCHECK_EVERY = [25]


def absorb(chk, res, on_ob):
    """Fold worker records into the Check."""
    for st, rec in res:
        if st != 'ok':
            chk.harness_errors.append('worker failed: ' + rec[:600])
            continue
        chk.count('programs')
        if 'build_error' in rec:
            if 'ambiguous' in rec.get('features', []) and 'LogicError' in rec['build_error']:
                # an ambiguous topology the library refuses: nothing to analyse (a tree that does build it is analysed like any other topology)
                chk.ob('unsat', 'ambiguous topology %s is refused (%s)' % (rec['plan'], rec['build_error'][:80]), distinct=('refused', rec['plan'], rec.get('order_tag')))
                continue
            chk.harness_errors.append('topology %s does not build: %s' % (rec['plan'], rec['build_error']))
            continue
        if 'untranslatable' in rec:
            chk.ob('unknown', '%s: %s' % (rec['plan'], rec['untranslatable']))
            continue
        if 'reach' in rec:
            chk.witness(rec['reach'] == 'sat', 'system of %s satisfiable' % rec['plan'])
        for ob in rec['obs']:
            on_ob(rec, ob)
        for k, v in rec.get('rungs', {}).items():
            chk.count('rung:' + k, v)
        chk.solver_s += rec.get('solver_s', 0.0)
        chk.queries += rec.get('queries', 0)
        chk.count('cvc5_crosschecked', rec.get('cvc5_crosschecked', 0))
        for d in rec.get('cvc5_disagreements', []):
            chk.harness_errors.append('solver disagreement in %s: %s' % (rec['plan'], d))


EXACT_REPLAY_HEAD = '''
import sys
from fractions import Fraction as F
from vf.replaylib import get_plan, check_period
from vf import zoo as Z
from vf.emit import emit
plan = get_plan(%(plan)r)
ctx = Z.build(plan, order=%(order)r)
em = emit(ctx)
vals = %(cex)r
params = {k[:-2]: F(v) for k, v in vals.items() if k.endswith('@*')}
per = lambda p: dict({k[:-2]: F(v) for k, v in vals.items() if k.endswith('@' + p)}, **params)
a, b = per('a'), per('b')
bad = check_period(em.parser, b, a, params) + check_period(em.parser, a, None, params)
if bad:
    print('witness does not satisfy the emitted equations:', bad[:5]); sys.exit(0)
'''


# ---------------------------------------------------------------------------------------------------------------
# equivalence of two emitted systems (C08 order, C18 renaming/embedding, C05 intended form)

def _exo_values(parser):
    out = {}
    for v, e in parser.Exogenous:
        try:
            val = eval(e, {'__builtins__': {}}, {})
            out[v] = [float(x) for x in val] if isinstance(val, (list, tuple)) else float(val)
        except Exception:
            out[v] = 'text:' + ''.join(e.split())
    return out


def compare_systems(pa, pb, params, mapb=None, restrict=None, timeout_ms=60000, drop_b=()):
    """Equivalence of two systems given as real-parser views.  mapb maps B's variable names to A's (renaming /
    prefixing).  restrict: optional predicate on A-names selecting the sub-economy compared.
    Returns (obs, D): obs = list of dict(kind, what, verdict, [cex]) - structural mismatches are verdict 'sat'."""
    from vf.eqsmt import to_z3
    mapb = mapb or (lambda n: n)
    obs = []
    D = Decider(timeout_ms=timeout_ms)
    keep = restrict or (lambda n: True)
    A_endo = {v: e for v, e in list(pa.Endogenous) + list(pa.Decoration) if keep(v)}
    B_endo = {mapb(v): e for v, e in list(pb.Endogenous) + list(pb.Decoration)}
    A_lag = {v: s.strip() for v, s in pa.Lagged if keep(v)}
    B_lag = {mapb(v): mapb(s.strip()) for v, s in pb.Lagged}
    A_exo = {v: x for v, x in _exo_values(pa).items() if keep(v) and v != 'k'}
    B_exo = {mapb(v): x for v, x in _exo_values(pb).items() if v != 'k'}
    A_ic = {v: float(x) for v, x in pa.InitialConditions.items() if keep(v)}
    B_ic = {mapb(v): float(x) for v, x in pb.InitialConditions.items()}
    if drop_b:
        B_endo = {v: e for v, e in B_endo.items() if v not in drop_b}
        B_lag = {v: e for v, e in B_lag.items() if v not in drop_b}
        B_exo = {v: e for v, e in B_exo.items() if v not in drop_b}
        B_ic = {v: e for v, e in B_ic.items() if v not in drop_b}
    for kind, a, b in (('variables', set(A_endo), set(B_endo)), ('lagged', A_lag, B_lag), ('exogenous', A_exo, B_exo),
                       ('initial-conditions', A_ic, B_ic)):
        if a != b:
            if isinstance(a, set):
                diff = {'only_first': sorted(a - b)[:8], 'only_second': sorted(b - a)[:8]}
            else:
                diff = {'only_first': sorted(set(a) - set(b))[:8], 'only_second': sorted(set(b) - set(a))[:8],
                        'different': sorted(k for k in set(a) & set(b) if a[k] != b[k])[:8]}
            obs.append({'kind': 'same-' + kind, 'what': 'same %s in both builds' % kind, 'verdict': 'sat', 'structural': diff})
        else:
            obs.append({'kind': 'same-' + kind, 'what': 'same %s in both builds (%d)' % (kind, len(a)), 'verdict': 'unsat'})
    common = sorted(set(A_endo) & set(B_endo))
    VV = {}

    def var(n):
        if n not in VV:
            VV[n] = z3.Real(n)
        return VV[n]
    rhsA, rhsB = {}, {}
    try:
        for v in common:
            if v in params:
                continue
            rhsA[v] = to_z3(A_endo[v], var)
            rhsB[v] = to_z3(B_endo[v], lambda n: var(mapb(n)))
    except Untranslatable as e:
        obs.append({'kind': 'equation-equivalence', 'what': 'untranslatable: %s' % e, 'verdict': 'unknown'})
        return obs, D
    differing = []
    for v in rhsA:
        if z3.eq(z3.simplify(rhsA[v] - rhsB[v]), z3.RealVal(0)):
            continue
        r, _ = D.decide([rhsA[v] != rhsB[v]], ladder=False, timeout_ms=10000)
        if r != 'unsat':
            differing.append(v)
    obs.append({'kind': 'per-equation-identical', 'what': '%d of %d equations identical as functions' % (len(rhsA) - len(differing), len(rhsA)),
                'verdict': 'unsat'})
    if differing:
        consA = [var(v) == rhsA[v] for v in rhsA]
        consB = [var(v) == rhsB[v] for v in rhsB]
        for v in differing:
            for side, cons, other, tag in (('first |= second', consA, rhsB, 'B'), ('second |= first', consB, rhsA, 'A')):
                r, m = D.decide(cons + [var(v) != other[v]])
                ob = {'kind': 'system-entailment', 'what': '%s: equation of %s' % (side, v), 'verdict': r, 'var': v, 'side': tag}
                if r == 'sat':
                    ob['cex'] = {n: str(val_fraction(m.eval(zv, model_completion=True))) for n, zv in VV.items()}
                obs.append(ob)
    return obs, D


ORDER_TAGS = {'quick': [('canonical', 0), ('markets-first', 3)], 'thorough': [('canonical', 0), ('markets-first', 3), ('reverse', 2), ('flows-first', 4)]}


def plan_orders(plans, tier):
    """(plan, order, tag) work items: every topology in its canonical declaration order and in alternative admissible orders."""
    items = []
    for p in plans:
        orders = p.orders('transpositions')
        seen = []
        for tag, idx in ORDER_TAGS[tier]:
            if idx < len(orders) and orders[idx] not in seen:
                seen.append(orders[idx])
                items.append((p, orders[idx] if idx else None, tag))
    return items
