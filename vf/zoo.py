"""Topology zoo: economies as *data* (ordered declarations with dependencies + post-declaration actions), so the
same economy can be built in another order (C08), under other codes (C18), alone or embedded (C18), and in many
shapes (C01, C04, C05, C07).  Only the real constructors / public methods of /repo are called.
"""
import itertools

from sfc_models.models import Model, Country, Region
from sfc_models.sector import Sector, Market
from sfc_models import sector_definitions as sd
from sfc_models.external import ExternalSector


class Decl(object):
    def __init__(self, key, make, needs=(), group=None, kind='sector'):
        self.key = key
        self.make = make
        self.needs = tuple(needs)
        self.group = group        # country key for sectors
        self.kind = kind


class Ctx(object):
    def __init__(self, rename=None):
        self.objs = {}
        self.rename = rename or {}
        self.model = None

    def nm(self, code):
        return self.rename.get(code, code)

    def __getitem__(self, key):
        return self.objs[key]


class Plan(object):
    def __init__(self, name):
        self.name = name
        self.decls = []
        self.posts = []
        self.params = []       # (sector key, local variable) : literal parameters the harness passed in (may be freed)
        self.positive = []     # (sector key, local variable) : variables assumed > 0 (exchange rates)
        self.features = set()
        self.has_external = False
        self.meta = {}
        self.rename = None     # default renaming of sector / market codes for this topology (build(rename=...) overrides)

    def decl(self, key, make, needs=(), group=None, kind='sector'):
        self.decls.append(Decl(key, make, needs, group, kind))

    def post(self, fn):
        self.posts.append(fn)

    # ------------------------------------------------------------------------------------------------------
    def orders(self, mode='canonical', limit=500):
        """Dependency-respecting declaration orders (lists of indices into self.decls). Countries (and the external
        sector) come first; the sector declarations are permuted, and (unless a Region relies on the default currency) the countries among themselves."""
        n = len(self.decls)
        canon = list(range(n))
        if mode == 'canonical':
            return [canon]
        countries = [i for i in canon if self.decls[i].kind in ('country', 'external')]
        sectors = [i for i in canon if i not in countries]
        ckeys = {self.decls[i].key for i in countries}

        def ok(seq):
            seen = set(ckeys)
            for i in seq:
                d = self.decls[i]
                if any(nd not in seen for nd in d.needs):
                    return False
                seen.add(d.key)
            return True

        def topo(pref):
            left = list(pref)
            seq = []
            seen = set(ckeys)
            while left:
                for i in left:
                    d = self.decls[i]
                    if all(nd in seen for nd in d.needs):
                        seq.append(i)
                        seen.add(d.key)
                        left.remove(i)
                        break
                else:
                    raise ValueError('cyclic needs')
            return seq
        out = [canon, countries + sectors]
        mk = [i for i in sectors if self.decls[i].kind == 'market']
        fl = [i for i in sectors if self.decls[i].kind == 'flow']
        out.append(countries + topo(list(reversed(sectors))))
        out.append(countries + topo(mk + [i for i in sectors if i not in mk]))
        out.append(countries + topo(fl + [i for i in sectors if i not in fl]))
        out.append(countries + topo(list(reversed(mk)) + list(reversed([i for i in sectors if i not in mk]))))
        out.append(countries + topo([i for i in sectors if i not in mk and i not in fl] + fl + mk))
        if len(countries) >= 2 and 'default-currency-region' not in self.features:
            # the countries (each with its stated currency) and the external sector in every other relative order
            for cperm in list(itertools.permutations(countries))[1:24]:
                out.append(list(cperm) + sectors)
        if mode in ('transpositions', 'all'):
            for a in range(len(sectors) - 1):
                o = list(sectors)
                o[a], o[a + 1] = o[a + 1], o[a]
                if ok(o):
                    out.append(countries + o)
        if mode == 'all':
            cnt = 0
            if len(sectors) <= 7:
                for perm in itertools.permutations(sectors):
                    if ok(perm):
                        out.append(countries + list(perm))
            else:
                # systematically spread: rotations and strided interleavings of the sector list
                m = len(sectors)
                for r in range(1, m):
                    out.append(countries + topo(sectors[r:] + sectors[:r]))
                for stride in range(2, min(m, 12)):
                    pref = []
                    for off in range(stride):
                        pref += sectors[off::stride]
                    out.append(countries + topo(pref))
                    out.append(countries + topo(list(reversed(pref))))
        uniq = []
        seen = set()
        for o in out:
            t = tuple(o)
            if t not in seen:
                seen.add(t)
                uniq.append(o)
        return uniq[:limit]


def build(plans, order=None, rename=None, maxtime=2, interrupt=None):
    """Instantiate one or several plans into one Model with the real constructors. Returns Ctx.
    interrupt = (pos, fn): fn() is called after `pos` declarations have been made (pos = number of declarations: before the
    post-declaration calls; pos = number of declarations + 1: after them) - something else happening in the process meanwhile."""
    if isinstance(plans, Plan):
        plans = [plans]
    if rename is None:
        for p in plans:
            if getattr(p, 'rename', None):
                rename = dict(rename or {}, **p.rename)
    ctx = Ctx(rename)
    ctx.model = Model()
    ctx.model.MaxTime = maxtime
    decls = []
    for p in plans:
        decls.extend(p.decls)
    if order is None:
        order = range(len(decls))
    order = list(order)
    for n, i in enumerate(order):
        if interrupt is not None and interrupt[0] == n:
            interrupt[1]()
        d = decls[i]
        ctx.objs[d.key] = d.make(ctx)
    if interrupt is not None and interrupt[0] == len(order):
        interrupt[1]()
    for p in plans:
        for fn in p.posts:
            fn(ctx)
    if interrupt is not None and interrupt[0] == len(order) + 1:
        interrupt[1]()
    return ctx


# -------------------------------------------------------------------------------------------------------------------
# fragments

def external(plan):
    plan.decl('EXT', lambda c: ExternalSector(c.model), kind='external')
    plan.has_external = True
    plan.features.add('external')


def country(plan, cc, currency=None, kind='Country'):
    if kind == 'Country':
        plan.decl(cc, lambda c: Country(c.model, c.nm(cc), currency=currency), kind='country')
    else:
        plan.decl(cc, lambda c: Region(c.model, c.nm(cc), currency=currency), kind='country')
        if currency is None:
            plan.features.add('default-currency-region')      # documented: such a Region joins the zone of the country declared last


EXO_LEN = 12


def exo(n=EXO_LEN, base=20.0):
    return '[%r,]*%d' % (base, n)


def economy(plan, cc, currency=None, gov='cons', hh='hh', caps=False, firm='fm0', mm=False,
            a1=0.6, a2=0.4, theta=0.2, kind='Country', make_country=True, free_xr=True, bonds=False):
    """One SIM/PC-like economy in country `cc`.
    gov: cons | tre_cb (treasury + central bank + money market + deposit market + portfolio households)
         | gold_gov | tre_goldcb
    hh: hh | hhexp ; caps: add Capitalists ; firm: fm0 | fm1 (margin 0.1) | multi (FixedMarginBusinessMultiOutput)
    mm: add MoneyMarket with the (consolidated) government as issuer
    """
    k = lambda s: cc + '.' + s
    if make_country:
        country(plan, cc, currency, kind)
    plan.features.update({'gov:' + gov, 'hh:' + hh, 'firm:' + firm})
    portfolio = gov in ('tre_cb', 'tre_goldcb', 'tre_only')
    # government
    if gov == 'cons':
        plan.decl(k('GOV'), lambda c: sd.ConsolidatedGovernment(c[cc], c.nm('GOV')), group=cc)
        govkey, taxto = k('GOV'), 'GOV'
    elif gov == 'gold_gov':
        plan.decl(k('GOV'), lambda c: sd.GoldStandardGovernment(c[cc], c.nm('GOV'), initial_gold_stock=100.), group=cc)
        govkey, taxto = k('GOV'), 'GOV'
    elif gov == 'tre_cb':
        plan.decl(k('TRE'), lambda c: sd.Treasury(c[cc], c.nm('TRE')), group=cc)
        plan.decl(k('CB'), lambda c: sd.CentralBank(c[cc], c.nm('CB'), treasury=c[k('TRE')]), needs=(k('TRE'),), group=cc)
        govkey, taxto = k('TRE'), 'TRE'
    elif gov == 'tre_goldcb':
        plan.decl(k('TRE'), lambda c: sd.Treasury(c[cc], c.nm('TRE')), group=cc)
        plan.decl(k('CB'), lambda c: sd.GoldStandardCentralBank(c[cc], c.nm('CB'), treasury=c[k('TRE')],
                                                                initial_gold_stock=100.), needs=(k('TRE'),), group=cc)
        govkey, taxto = k('TRE'), 'TRE'
    elif gov == 'tre_only':
        # no central bank: the Treasury (which itself declares a zero money demand) issues money AND deposits
        plan.decl(k('TRE'), lambda c: sd.Treasury(c[cc], c.nm('TRE')), group=cc)
        govkey, taxto = k('TRE'), 'TRE'
    elif gov == 'none':
        govkey, taxto = None, None     # taxed/served by the zone's single government (declared in another country)
    else:
        raise ValueError(gov)
    plan.meta[k('gov')] = govkey
    # households
    hhcls = {'hh': sd.Household, 'hhexp': sd.HouseholdWithExpectations}[hh]
    plan.decl(k('HH'), lambda c: hhcls(c[cc], c.nm('HH'), alpha_income=a1, alpha_fin=a2,
                                       consumption_good_name=c.nm('GOOD'), labour_name=c.nm('LAB')), group=cc)
    plan.params += [(k('HH'), 'AlphaIncome'), (k('HH'), 'AlphaFin')]
    if caps:
        plan.decl(k('CAP'), lambda c: sd.Capitalists(c[cc], c.nm('CAP'), alpha_income=0.5, alpha_fin=0.2,
                                                     consumption_good_name=c.nm('GOOD')), group=cc)
        plan.params += [(k('CAP'), 'AlphaIncome'), (k('CAP'), 'AlphaFin')]
        plan.features.add('caps')
    # markets (goods market may be needed by the multi-output firm's constructor)
    if firm == 'multi':
        plan.decl(k('GOOD'), lambda c: Market(c[cc], c.nm('GOOD')), group=cc, kind='market')
        plan.decl(k('BUS'), lambda c: sd.FixedMarginBusinessMultiOutput(
            c[cc], c.nm('BUS'), profit_margin=0.0, labour_input_name=c.nm('LAB'), market_list=[c[k('GOOD')]]),
            needs=(k('GOOD'),), group=cc)
        plan.post(lambda c: c[k('GOOD')].AddSupplier(c[k('BUS')]))
    else:
        margin = {'fm0': 0.0, 'fm1': 0.1}[firm]
        plan.decl(k('BUS'), lambda c: sd.FixedMarginBusiness(c[cc], c.nm('BUS'), profit_margin=margin,
                                                             labour_input_name=c.nm('LAB'), output_name=c.nm('GOOD')),
                  group=cc)
    if gov != 'none':
        plan.decl(k('TF'), lambda c: sd.TaxFlow(c[cc], c.nm('TF'), taxrate=theta, taxes_paid_to=c.nm(taxto)), group=cc, kind='flow')
        plan.params += [(k('TF'), 'TaxRate')]
    plan.decl(k('LAB'), lambda c: Market(c[cc], c.nm('LAB')), group=cc, kind='market')
    if firm != 'multi':
        plan.decl(k('GOOD'), lambda c: Market(c[cc], c.nm('GOOD')), group=cc, kind='market')
    if mm and gov in ('cons', 'gold_gov'):
        plan.decl(k('MON'), lambda c: sd.MoneyMarket(c[cc], issuer_short_code=c.nm('GOV')), group=cc, kind='market')
        plan.features.add('mm')
    if portfolio:
        plan.decl(k('MON'), lambda c: sd.MoneyMarket(c[cc], issuer_short_code=c.nm('TRE' if gov == 'tre_only' else 'CB')), group=cc, kind='market')
        plan.decl(k('DEP'), lambda c: sd.DepositMarket(c[cc], issuer_short_code=c.nm('TRE')), group=cc, kind='market')
        plan.features.update({'mm', 'dep'})
        if bonds:
            # a second interest-bearing asset: households allocate wealth among three assets
            plan.decl(k('BOND'), lambda c: sd.DepositMarket(c[cc], code='BOND', issuer_short_code=c.nm('TRE')), group=cc, kind='market')
            plan.post(lambda c: c[k('BOND')].SetExogenous('r', '[.04,]*%d' % EXO_LEN))
            plan.features.add('bonds')

        def portfolio_post(c, who=k('HH')):
            h = c[who]
            h.AddVariable('L0', 'lambda_0', '0.635')
            h.AddVariable('L1', 'lambda_1', '5.')
            h.AddVariable('L2', 'lambda_2', '.01')
            r = c[k('DEP')].GetVariableName('r')
            weights = [('DEP', 'L0 + L1 * {0} - L2 * (AfterTax/F)'.format(r))]
            if bonds:
                h.AddVariable('L3', 'lambda_3', '0.1')
                weights.append(('BOND', 'L3 + 0.5 * {0}'.format(c[k('BOND')].GetVariableName('r'))))
            h.GenerateAssetWeighting(weights, 'MON')
        plan.post(portfolio_post)
        plan.params += [(k('HH'), 'L0'), (k('HH'), 'L1'), (k('HH'), 'L2')]
        plan.post(lambda c: c[k('DEP')].SetExogenous('r', '[.025,]*%d' % EXO_LEN))
        if caps:
            plan.post(lambda c: portfolio_post(c, k('CAP')))
            plan.params += [(k('CAP'), 'L0'), (k('CAP'), 'L1'), (k('CAP'), 'L2')]
    # exogenous government demand (named through the goods code so renaming keeps the wiring)
    if govkey is not None:
        def gov_demand_post(c):
            # the government classes expose no goods-name parameter: a government buying from a renamed goods market
            # declares its demand variable itself (same call sequence in every build)
            g = c[govkey]
            name = 'DEM_' + c.nm('GOOD')
            if name not in g.EquationBlock:
                g.AddVariable(name, 'Government consumption of goods', '0.0')
            g.SetExogenous(name, exo())
        plan.post(gov_demand_post)
    if gov in ('gold_gov', 'tre_goldcb'):
        plan.features.add('gold')
    if free_xr and currency is not None:
        def xr_post(c):
            if c.model.ExternalSector is not None:
                c.model.ExternalSector['XR'].SetExogenous(currency, '[1.5,]*%d' % EXO_LEN)
        plan.post(xr_post)
        plan.positive.append(('EXT.XR', currency))


def gift(plan, src, dst, name='GIFT', inc_src=True, inc_dst=True, amount=5.0):
    """Registered cash flow src -> dst of an exogenous amount (src/dst are sector keys)."""
    def post(c):
        s = c[src]
        if name not in s.EquationBlock:
            s.AddVariable(name, 'gift', '%r' % amount)
            s.SetExogenous(name, '[%r,]*%d' % (amount, EXO_LEN))
        c.model.RegisterCashFlow(s, c[dst], name, inc_src, inc_dst)
    plan.post(post)
    plan.features.add('gift')
    plan.meta.setdefault('gifts', []).append((src, dst, name))


def imports(plan, cc_buyer, cc_seller, mu=0.2, residual='domestic'):
    """Buyer's goods market gets the seller country's multi-output firm as a second supplier ('MU * income').
    residual='foreign': the FOREIGN firm is the market's residual supplier and the domestic firm gets the stated share."""
    def post_foreign_residual(c):
        mk = c[cc_buyer + '.GOOD']
        mk.AddVariable('MU', 'Share bought at home', '%r' % mu)
        mk.SetExogenous('MU', '[%r,]*%d' % (mu, EXO_LEN))
        y = c[cc_buyer + '.HH'].GetVariableName('INC')
        mk.AddSupplier(c[cc_seller + '.BUS'])
        mk.AddSupplier(c[cc_buyer + '.BUS'], 'MU*{0}'.format(y))
        c[cc_seller + '.BUS'].AddMarket(mk)
    if residual == 'foreign':
        plan.post(post_foreign_residual)
        plan.features.update({'imports', 'foreign-residual-supplier'})
        plan.meta.setdefault('imports', []).append((cc_buyer, cc_seller))
        return

    def post(c):
        mk = c[cc_buyer + '.GOOD']
        if 'MU' not in mk.EquationBlock:
            mk.AddVariable('MU', 'propensity to import', '%r' % mu)
            mk.SetExogenous('MU', '[%r,]*%d' % (mu, EXO_LEN))
        y = c[cc_buyer + '.HH'].GetVariableName('INC')
        mk.AddSupplier(c[cc_seller + '.BUS'], 'MU*{0}'.format(y))
        c[cc_seller + '.BUS'].AddMarket(mk)
    plan.post(post)
    plan.features.add('imports')
    plan.meta.setdefault('imports', []).append((cc_buyer, cc_seller))


def reg_onecountry(plan, cc, currency=None):
    """REG-style: one country, two regional household/firm pairs, treasury + central bank (chapter 6 REG)."""
    k = lambda s: cc + '.' + s
    country(plan, cc, currency)
    plan.features.add('layout:reg')
    plan.decl(k('TRE'), lambda c: sd.Treasury(c[cc], 'TRE'), group=cc)
    plan.decl(k('CB'), lambda c: sd.CentralBank(c[cc], 'CB', treasury=c[k('TRE')]), needs=(k('TRE'),), group=cc)
    for r, a1, a2 in (('N', .6, .4), ('S', .7, .3)):
        plan.decl(k('HH_' + r), lambda c, r=r, a1=a1, a2=a2: sd.Household(
            c[cc], 'HH_' + r, alpha_income=a1, alpha_fin=a2, labour_name='LAB_' + r, consumption_good_name='GOOD_' + r), group=cc)
        plan.params += [(k('HH_' + r), 'AlphaIncome'), (k('HH_' + r), 'AlphaFin')]
    for r in ('N', 'S'):
        plan.decl(k('GOOD_' + r), lambda c, r=r: Market(c[cc], 'GOOD_' + r), group=cc, kind='market')
    for r in ('N', 'S'):
        plan.decl(k('BUS_' + r), lambda c, r=r: sd.FixedMarginBusinessMultiOutput(
            c[cc], 'BUS_' + r, market_list=[c[k('GOOD_N')], c[k('GOOD_S')]], profit_margin=0.0, labour_input_name='LAB_' + r),
            needs=(k('GOOD_N'), k('GOOD_S')), group=cc)
    plan.decl(k('TF'), lambda c: sd.TaxFlow(c[cc], 'TF', taxrate=.2, taxes_paid_to='TRE'), group=cc, kind='flow')
    plan.params += [(k('TF'), 'TaxRate')]
    for r in ('S', 'N'):
        plan.decl(k('LAB_' + r), lambda c, r=r: Market(c[cc], 'LAB_' + r), group=cc, kind='market')
    plan.decl(k('MON'), lambda c: sd.MoneyMarket(c[cc], issuer_short_code='CB'), group=cc, kind='market')
    plan.decl(k('DEP'), lambda c: sd.DepositMarket(c[cc], issuer_short_code='TRE'), group=cc, kind='market')

    def post(c):
        gn, gs, bn, bs = c[k('GOOD_N')], c[k('GOOD_S')], c[k('BUS_N')], c[k('BUS_S')]
        hn, hs, tre, dep = c[k('HH_N')], c[k('HH_S')], c[k('TRE')], c[k('DEP')]
        gn.AddVariable('MU', 'Propensity to import', '0.18781')
        gs.AddVariable('MU', 'Propensity to import', '0.18781')
        gn.AddSupplier(bs, 'MU*{0}'.format(hn.GetVariableName('INC')))
        gn.AddSupplier(bn)
        gs.AddSupplier(bs)
        gs.AddSupplier(bn, 'MU*{0}'.format(hs.GetVariableName('INC')))
        for h, l0, l1, l2 in ((hn, '0.635', '5.', '.01'), (hs, '0.67', '6.', '.07')):
            h.AddVariable('L0', 'l0', l0)
            h.AddVariable('L1', 'l1', l1)
            h.AddVariable('L2', 'l2', l2)
            h.GenerateAssetWeighting([('DEP', 'L0 + L1 * {0} - L2 * (AfterTax/F)'.format(dep.GetVariableName('r')))], 'MON')
        tre.SetEquationRightHandSide('DEM_GOOD', 'DEM_GOOD_N + DEM_GOOD_S')
        tre.AddVariable('DEM_GOOD_N', 'Demand for goods in the North', '')
        tre.AddVariable('DEM_GOOD_S', 'Demand for goods in the South', '')
        tre.SetExogenous('DEM_GOOD_N', exo())
        tre.SetExogenous('DEM_GOOD_S', exo())
        dep.SetExogenous('r', '[.025,]*%d' % EXO_LEN)
        gs.SetExogenous('MU', '[0.2,]*%d' % EXO_LEN)
        gn.SetExogenous('MU', '[0.18,]*%d' % EXO_LEN)
    plan.post(post)
    for r in ('N', 'S'):
        plan.params += [(k('HH_' + r), 'L0'), (k('HH_' + r), 'L1'), (k('HH_' + r), 'L2')]
    plan.features.update({'mm', 'dep', 'imports', 'gov:tre_cb', 'firm:multi'})
    plan.meta[k('gov')] = k('TRE')


def reg_federation(plan, prefix, currency=None, regions=('N', 'S'), place=None, last_region_default_currency=False):
    """REG2-style federation: a central-government Region + 1..2 Regions sharing its currency.
    place: where the zone-wide objects live, e.g. {'DEP': 'N'} puts the deposit market into region N instead of the
    central-government region (its issuer / the taxing sector stay where they are)."""
    g = prefix + 'GOV'
    place = {kk: prefix + v for kk, v in (place or {}).items()}
    plan.features.add('layout:fed')
    country(plan, g, currency, kind='Country' if currency is not None else 'Region')
    k = lambda cc, s: cc + '.' + s
    plan.decl(k(g, 'TRE'), lambda c: sd.Treasury(c[g], 'TRE'), group=g)
    plan.decl(k(g, 'CB'), lambda c: sd.CentralBank(c[g], 'CB', treasury=c[k(g, 'TRE')]), needs=(k(g, 'TRE'),), group=g)
    rcodes = [prefix + r for r in regions]
    for rc in rcodes:
        if last_region_default_currency and rc == rcodes[-1] and len(rcodes) > 1:
            # Region() without a currency: it takes the model's default currency (that of the country declared just before it)
            plan.decl(rc, lambda c, rc=rc: Region(c.model, c.nm(rc)), kind='country', needs=(rcodes[-2],))
            plan.features.add('region-default-currency')
        else:
            country(plan, rc, currency, kind='Region')
    pm, pd, pt = place.get('MON', g), place.get('DEP', g), place.get('TF', g)
    if place:
        plan.features.add('zone-wide-object-outside-government-region')
    plan.decl(k(g, 'MON'), lambda c: sd.MoneyMarket(c[pm], issuer_short_code='CB'), group=pm, kind='market')
    plan.decl(k(g, 'DEP'), lambda c: sd.DepositMarket(c[pd], issuer_short_code='TRE'), group=pd, kind='market')
    plan.decl(k(g, 'TF'), lambda c: sd.TaxFlow(c[pt], 'TF', taxrate=.2, taxes_paid_to='TRE'), group=pt, kind='flow')
    plan.params += [(k(g, 'TF'), 'TaxRate')]
    for rc in rcodes:
        plan.decl(k(rc, 'HH'), lambda c, rc=rc: sd.Household(c[rc], 'HH'), group=rc)
        plan.params += [(k(rc, 'HH'), 'AlphaIncome'), (k(rc, 'HH'), 'AlphaFin')]
        plan.decl(k(rc, 'GOOD'), lambda c, rc=rc: Market(c[rc], 'GOOD'), group=rc, kind='market')
        plan.decl(k(rc, 'BUS'), lambda c, rc=rc: sd.FixedMarginBusinessMultiOutput(c[rc], 'BUS', market_list=[c[k(rc, 'GOOD')]]),
                  needs=(k(rc, 'GOOD'),), group=rc)
        plan.decl(k(rc, 'LAB'), lambda c, rc=rc: Market(c[rc], 'LAB'), group=rc, kind='market')

    def post(c):
        tre, dep = c[k(g, 'TRE')], c[k(g, 'DEP')]
        terms = []
        for rc in rcodes:
            code = c[rc].Code
            tre.AddVariable('DEM_%s_GOOD' % code, 'Demand for goods in ' + code, '')
            tre.SetExogenous('DEM_%s_GOOD' % code, exo())
            terms.append('DEM_%s_GOOD' % code)
            h = c[k(rc, 'HH')]
            c[k(rc, 'GOOD')].AddSupplier(c[k(rc, 'BUS')])
            h.AddVariable('L0', 'l0', '0.635')
            h.AddVariable('L1', 'l1', '5.')
            h.AddVariable('L2', 'l2', '.01')
            h.GenerateAssetWeighting([('DEP', 'L0 + L1 * {0} - L2 * (AfterTax/F)'.format(dep.GetVariableName('r')))], 'MON')
        tre.SetEquationRightHandSide('DEM_GOOD', ' + '.join(terms))
        dep.SetExogenous('r', '[.025,]*%d' % EXO_LEN)
        if len(rcodes) == 2:
            for a, b in ((rcodes[0], rcodes[1]), (rcodes[1], rcodes[0])):
                mk = c[k(a, 'GOOD')]
                mk.AddVariable('MU', 'Propensity to import', '0.18761')
                mk.SetExogenous('MU', '[0.19,]*%d' % EXO_LEN)
                mk.AddSupplier(c[k(b, 'BUS')], 'MU*{0}'.format(c[k(a, 'HH')].GetVariableName('INC')))
                c[k(b, 'BUS')].AddMarket(mk)
    plan.post(post)
    for rc in rcodes:
        plan.params += [(k(rc, 'HH'), 'L0'), (k(rc, 'HH'), 'L1'), (k(rc, 'HH'), 'L2')]
    plan.features.update({'mm', 'dep', 'gov:tre_cb', 'firm:multi'})
    if len(rcodes) == 2:
        plan.features.add('imports')
    plan.meta[k(g, 'gov')] = k(g, 'TRE')


# -------------------------------------------------------------------------------------------------------------------
# the zoo

def single(name, **kw):
    p = Plan(name)
    economy(p, 'CA', None, free_xr=False, **kw)
    return p


def two_zone(name, kwa, kwb, links, ext=True, order_ext_first=True):
    p = Plan(name)
    if ext and order_ext_first:
        external(p)
    economy(p, 'AA', 'AAD', **kwa)
    economy(p, 'BB', 'BBD', **kwb)
    if ext and not order_ext_first:
        external(p)
    for ln in links:
        ln(p)
    return p


class ServiceBusiness(sd.FixedMarginBusiness):
    """A user's subclass: inherits the equation generation of FixedMarginBusiness unchanged."""


def zoo(tier='quick'):
    Z = []
    # --- single zone, one country: every government x household x firm variant
    Z.append(single('sim'))
    Z[-1].features.add('solve-compare')
    Z.append(single('simex', hh='hhexp'))
    Z.append(single('sim_caps_margin', caps=True, firm='fm1'))
    Z.append(single('sim_margin', firm='fm1'))
    Z.append(single('sim_mm', mm=True))
    Z.append(single('sim_multi', firm='multi'))
    Z.append(single('pc', gov='tre_cb'))
    # a household with its own (sector-level) tax rate next to one taxed at the tax flow's rate
    p = single('sim_caps_own_taxrate', caps=True, firm='fm1')
    p.post(lambda c: c['CA.HH'].AddVariable('TaxRate', 'sector-level tax rate', '0.3'))
    p.params.append(('CA.HH', 'TaxRate'))
    Z.append(p)
    p = single('sim_caps_own_taxrate_rev', caps=True, firm='fm1')
    p.post(lambda c: c['CA.CAP'].AddVariable('TaxRate', 'sector-level tax rate', '0.35'))
    p.params.append(('CA.CAP', 'TaxRate'))
    Z.append(p)
    # one transfer variable paid to two different sectors, and the same flow registered twice
    p = single('sim_transfer_twice', caps=True, firm='fm1')
    gift(p, 'CA.GOV', 'CA.HH', name='TRANSFER')
    gift(p, 'CA.GOV', 'CA.CAP', name='TRANSFER')
    gift(p, 'CA.HH', 'CA.CAP', name='TITHE', inc_src=True, inc_dst=True)
    gift(p, 'CA.HH', 'CA.CAP', name='TITHE', inc_src=True, inc_dst=True)
    Z.append(p)
    Z.append(single('pc_exp_caps_margin', gov='tre_cb', hh='hhexp', caps=True, firm='fm1'))
    Z.append(single('pc_multi', gov='tre_cb', firm='multi'))
    Z.append(single('pc_bonds', gov='tre_cb', bonds=True))
    Z.append(single('pc_bonds_caps', gov='tre_cb', bonds=True, caps=True, firm='fm1', hh='hhexp'))
    # intra-zone gifts (two countries, same currency), with the four income-flag combinations
    for i, (fs, fd) in enumerate(((True, True), (True, False), (False, True), (False, False))):
        p = Plan('samezone_gift_%d' % i)
        economy(p, 'AA', 'XXD', free_xr=False)
        economy(p, 'BB', 'XXD', gov='none', hh='hhexp' if i % 2 else 'hh', caps=(i == 2), firm='fm1' if i == 2 else 'fm0', free_xr=False)
        gift(p, 'AA.HH', 'BB.HH', inc_src=fs, inc_dst=fd)
        if i == 2:
            gift(p, 'BB.CAP', 'AA.HH', name='ALMS', inc_src=fd, inc_dst=fs)
        Z.append(p)
    # other-country supplier in the same zone
    p = Plan('samezone_imports')
    economy(p, 'AA', 'XXD', firm='multi', free_xr=False)
    economy(p, 'BB', 'XXD', gov='none', firm='multi', free_xr=False)
    imports(p, 'AA', 'BB')
    imports(p, 'BB', 'AA')
    Z.append(p)
    # a household of another country of the zone buys on this country's goods market (demand variable DEM_<country>_<code>)
    p = Plan('samezone_crossdemand')
    economy(p, 'AA', 'XXD', free_xr=False)
    economy(p, 'BB', 'XXD', gov='none', free_xr=False)
    p.decl('BB.TOURIST', lambda c: sd.Household(c['BB'], 'TOURIST', alpha_income=0.5, alpha_fin=0.1,
                                                consumption_good_name='AA_GOOD', labour_name='IDLE'), group='BB')
    p.params += [('BB.TOURIST', 'AlphaIncome'), ('BB.TOURIST', 'AlphaFin')]
    Z.append(p)
    # three suppliers on one goods market with two allocation rules
    p = Plan('three_suppliers')
    economy(p, 'CA', None, firm='multi', free_xr=False)
    p.decl('CA.BUS2', lambda c: sd.FixedMarginBusinessMultiOutput(c['CA'], 'BUS2', market_list=[c['CA.GOOD']]), needs=('CA.GOOD',), group='CA')
    p.decl('CA.BUS3', lambda c: sd.FixedMarginBusinessMultiOutput(c['CA'], 'BUS3', profit_margin=0.1, market_list=[c['CA.GOOD']]), needs=('CA.GOOD',), group='CA')

    def three_post(c):
        mk = c['CA.GOOD']
        mk.AddVariable('SHARE2', 'share of BUS2', '0.25')
        mk.SetExogenous('SHARE2', '[0.25,]*%d' % EXO_LEN)
        mk.AddSupplier(c['CA.BUS2'], 'SHARE2*DEM_GOOD')
        mk.AddSupplier(c['CA.BUS3'], '0.1*{0}'.format(c['CA.HH'].GetVariableName('INC')))
    p.post(three_post)
    Z.append(p)
    p = Plan('reg')
    reg_onecountry(p, 'CA')
    Z.append(p)
    p = Plan('reg2')
    reg_federation(p, '', None)
    Z.append(p)
    p = Plan('fed1')
    reg_federation(p, '', None, regions=('N',))
    Z.append(p)
    # zone-wide objects (deposit market, money market, tax flow) placed in another region than their issuer / the taxing sector
    for nm, pl, regs in (('fed_dep_in_region', {'DEP': 'N'}, ('N', 'S')), ('fed_tf_in_region', {'TF': 'S'}, ('N', 'S')),
                         ('fed1_all_in_region', {'DEP': 'N', 'MON': 'N', 'TF': 'N'}, ('N',))):
        p = Plan(nm)
        reg_federation(p, '', None, regions=regs, place=pl)
        Z.append(p)
    # --- two zones with external sector
    G = lambda s, d, **kw: (lambda p: gift(p, s, d, **kw))
    I = lambda a, b: (lambda p: imports(p, a, b))
    Z.append(two_zone('xz_nolink', {}, {}, []))
    Z.append(two_zone('xz_gift_ab', {}, {}, [G('AA.HH', 'BB.HH')]))
    Z.append(two_zone('xz_gift_both', dict(caps=True, firm='fm1'), dict(hh='hhexp'),
                      [G('AA.HH', 'BB.HH'), G('BB.HH', 'AA.CAP', inc_src=False, inc_dst=True)]))
    Z.append(two_zone('xz_gift_flags', {}, dict(gov='tre_cb'),
                      [G('AA.HH', 'BB.HH', inc_src=False, inc_dst=False), G('BB.HH', 'AA.GOV', inc_src=True, inc_dst=False)]))
    Z.append(two_zone('xz_gift_extlast', {}, {}, [G('BB.HH', 'AA.HH')], order_ext_first=False))
    Z.append(two_zone('xz_imports', dict(firm='multi'), dict(firm='multi'), [I('AA', 'BB'), I('BB', 'AA')]))
    Z.append(two_zone('xz_imports_oneway_pc', dict(firm='multi', gov='tre_cb'), dict(firm='multi'), [I('AA', 'BB')]))
    Z.append(two_zone('xz_imports_foreign_residual', dict(firm='multi'), dict(firm='multi', gov='tre_cb'), [lambda p: imports(p, 'AA', 'BB', residual='foreign')]))
    Z.append(two_zone('xz_gold_gift', dict(gov='gold_gov'), dict(gov='gold_gov'), [G('AA.HH', 'BB.HH')]))
    Z.append(two_zone('xz_goldcb_imports', dict(gov='tre_goldcb', firm='multi'), dict(gov='tre_goldcb', firm='multi'),
                      [I('AA', 'BB'), I('BB', 'AA')]))
    # a gold-standard zone that gets a second country AFTER the gold purchases of the first were wired up (at construction)
    p = two_zone('xz_gold_zone_grows', dict(gov='gold_gov'), {}, [lambda p: gift(p, 'AA.HH', 'BB.HH')])
    economy(p, 'AR', 'AAD', gov='none', firm='fm0', make_country=True, free_xr=False)
    gift(p, 'AR.HH', 'BB.HH', name='REMIT')
    Z.append(p)
    # ... and a hand-wired gold buyer: the documented public call ext['GOLD'].SetGoldPurchases(...) made while the model is being declared,
    # with another country of the same currency declared afterwards
    p = two_zone('xz_gold_handwired_zone_grows', {}, {}, [lambda p: gift(p, 'AA.HH', 'BB.HH')])

    def make_goldbuyer(c):
        sec = Sector(c['AA'], c.nm('GOLDFUND'))
        sec.AddVariable('GOLDPURCHASES', 'gold bought (local currency)', '2.0')
        sec.SetExogenous('GOLDPURCHASES', '[2.0,]*%d' % EXO_LEN)
        c['EXT']['GOLD'].SetGoldPurchases(sec, 'GOLDPURCHASES', 100.)
        return sec
    p.decl('AA.GOLDFUND', make_goldbuyer, needs=('EXT', 'AA'), group='AA')
    economy(p, 'AR', 'AAD', gov='none', firm='fm0', make_country=True, free_xr=False)
    gift(p, 'AR.HH', 'BB.HH', name='REMIT')
    p.features.add('gold')
    Z.append(p)
    p = two_zone('xz_goldcb_zone_grows', dict(gov='tre_goldcb'), dict(hh='hhexp'), [lambda p: gift(p, 'BB.HH', 'AA.HH')])
    economy(p, 'AR', 'AAD', gov='none', firm='fm0', make_country=True, free_xr=False)
    gift(p, 'AR.HH', 'BB.HH', name='REMIT')
    Z.append(p)
    # a sector OUTSIDE a goods market's currency zone that carries a variable named like a demand for that market (a wish list in its own currency):
    # the market sells inside its zone only, so the variable is inert (not part of total demand, no cash flow); a same-zone buyer in a region is counted
    p = two_zone('xz_foreign_wishlist', dict(firm='multi'), {}, [lambda p: gift(p, 'AA.HH', 'BB.HH')])

    def make_wish(c):
        sec = Sector(c['BB'], c.nm('WISH'))
        sec.AddVariable('DEM_%s_%s' % (c['AA'].Code, c['AA.GOOD'].Code), 'wish list (own currency)', '5.0')
        sec.AddVariable('DEM_%s_%s' % (c['AA'].Code, c['AA.LAB'].Code), 'wish list (own currency)', '1.0')
        return sec
    p.decl('BB.WISH', make_wish, needs=('BB', 'AA.GOOD', 'AA.LAB'), group='BB')
    p.meta['wishes'] = [('BB.WISH', 'AA.GOOD'), ('BB.WISH', 'AA.LAB')]        # (sector outside the zone, market it names)
    Z.append(p)
    # the same flow (source, amount variable, target) registered twice - two instalments per period - across zones and inside one country
    Z.append(two_zone('xz_gift_twice', {}, {}, [G('AA.HH', 'BB.HH'), G('AA.HH', 'BB.HH'), G('BB.HH', 'AA.HH', name='BACK'), G('AA.HH', 'BB.HH')]))
    p = single('sim_gift_twice')
    gift(p, 'CA.HH', 'CA.BUS', name='TIP'); gift(p, 'CA.HH', 'CA.BUS', name='TIP')
    Z.append(p)
    # two tax flows in one currency zone: a federal one paying the federal government, a provincial one (declared in a second country of the zone,
    # with a lower rate) paying the provincial government
    p = Plan('samezone_federal_and_provincial_tax')
    economy(p, 'AA', 'XXD', free_xr=False)
    country(p, 'PR', 'XXD')
    p.decl('PR.PGOV', lambda c: sd.ConsolidatedGovernment(c['PR'], c.nm('PGOV')), group='PR')
    p.decl('PR.PTF', lambda c: sd.TaxFlow(c['PR'], c.nm('PTF'), taxrate=0.1, taxes_paid_to=c.nm('PGOV')), group='PR', kind='flow')
    p.params += [('PR.PTF', 'TaxRate')]
    p.features.add('two-tax-flows')
    Z.append(p)
    # ... and the same with a household that states its own (sector-level) tax rate, and capitalists taxed at the flows' rates
    p = Plan('samezone_two_taxes_own_taxrate')
    economy(p, 'AA', 'XXD', caps=True, firm='fm1', free_xr=False)
    country(p, 'PR', 'XXD')
    p.decl('PR.PGOV', lambda c: sd.ConsolidatedGovernment(c['PR'], c.nm('PGOV')), group='PR')
    p.decl('PR.PTF', lambda c: sd.TaxFlow(c['PR'], c.nm('PTF'), taxrate=0.1, taxes_paid_to=c.nm('PGOV')), group='PR', kind='flow')
    p.params += [('PR.PTF', 'TaxRate')]
    p.post(lambda c: c['AA.CAP'].AddVariable('TaxRate', 'sector-level tax rate', '0.25'))
    p.features.add('two-tax-flows')
    Z.append(p)
    # a rule-based supplier whose rule is stated a second time (AddSupplier called again for the same supplier, to revise the rule)
    p = Plan('samezone_supplier_rule_restated')
    economy(p, 'AA', 'XXD', firm='multi', free_xr=False)
    economy(p, 'BB', 'XXD', gov='none', firm='multi', free_xr=False)

    def restated_post(c):
        mk = c['AA.GOOD']
        y = c['AA.HH'].GetVariableName('INC')
        mk.AddSupplier(c['BB.BUS'], '0.3*{0}'.format(y))
        mk.AddSupplier(c['BB.BUS'], '0.1*{0}'.format(y))
        c['BB.BUS'].AddMarket(mk)
    p.post(restated_post)
    p.features.add('imports')
    Z.append(p)
    # the roles restated: the residual supplier is given a rule afterwards, and a rule-based supplier is made the residual one
    p = Plan('samezone_supplier_roles_restated')
    economy(p, 'AA', 'XXD', firm='multi', free_xr=False)
    economy(p, 'BB', 'XXD', gov='none', firm='multi', free_xr=False)

    def roles_post(c):
        mk = c['AA.GOOD']          # AA.BUS is the residual supplier so far (declared by the economy)
        y = c['AA.HH'].GetVariableName('INC')
        mk.AddSupplier(c['BB.BUS'], '0.3*{0}'.format(y))
        mk.AddSupplier(c['AA.BUS'], '0.5*{0}'.format(y))
        mk.AddSupplier(c['BB.BUS'])
        c['BB.BUS'].AddMarket(mk)
    p.post(roles_post)
    p.features.add('imports')
    Z.append(p)
    # money issued by a sector that keeps no balance sheet of its own (has_F=False), e.g. a mint
    p = single('sim_mm_issuer_without_ledger')
    p.decl('CA.MINT', lambda c: Sector(c['CA'], c.nm('MINT'), has_F=False), group='CA')
    p.decl('CA.MON', lambda c: sd.MoneyMarket(c['CA'], issuer_short_code=c.nm('MINT')), group='CA', kind='market')
    p.features.add('mm')
    Z.append(p)
    # a variable whose NAME contains the word the Model uses to mark exogenous definitions
    # a chain of constants across sectors, one of them zero: V = g(W), W = f(Z), Z = 0.0 - with a lag of V feeding the dynamics (what the solver
    # makes of the k=0 values must not depend on the order the sectors were declared in)
    p = single('sim_constant_chain_across_sectors')
    p.decl('CA.CB', lambda c: Sector(c['CA'], c.nm('CB'), has_F=False), group='CA')
    p.decl('CA.BANK', lambda c: Sector(c['CA'], c.nm('BANK'), has_F=False), group='CA')

    def chain_post(c):
        c['CA.CB'].AddVariable('POLICY', 'policy rate', '0.0')
        c['CA.BANK'].AddVariable('LOANRATE', 'loan rate', '1.5*' + c['CA.CB'].GetVariableName('POLICY'))
        hh = c['CA.HH']
        hh.AddVariable('HURDLE', 'hurdle rate', c['CA.BANK'].GetVariableName('LOANRATE') + ' + 0.05')
        hh.AddVariable('LAG_HURDLE', 'last period hurdle rate', 'HURDLE(k-1)')
        hh.AddVariable('SPREAD', 'uses the lag', 'LAG_HURDLE*LAG_F + 2*LAG_HURDLE')
        c.model.AddInitialCondition(hh.ID, 'F', 80.)
    p.post(chain_post)
    p.features.add('solve-compare')
    Z.append(p)
    # a sector whose CODE starts with the marker word (every one of its variables does, then)
    p = single('sim_sector_code_starts_with_exogenous')
    p.rename = {'HH': 'EXOGENOUS_HH', 'BUS': 'EXOGENOUSBUS'}
    Z.append(p)
    p = single('sim_variable_named_exogenous_level')

    def exo_named_post(c):
        c['CA.HH'].AddVariable('EXOGENOUS_LEVEL', 'a level the user calls exogenous', '2.0')
        c['CA.HH'].AddVariable('TARGET', 'uses it', 'EXOGENOUS_LEVEL + 0.5*AfterTax')
        c['CA.GOV'].AddVariable('NONEXOGENOUS', 'another one', '3.0 + T')
        # variables named like words float() accepts (INF for inflation ...), used alone as a right-hand side
        c['CA.HH'].AddVariable('INF', 'inflation', '0.02')
        c['CA.HH'].AddVariable('EXPINF', 'expected inflation', 'INF')
        c['CA.GOV'].AddVariable('Infinity', 'a horizon', '12.0')
        c['CA.GOV'].AddVariable('HORIZON', 'uses it', ' Infinity ')
        c['CA.GOV'].AddVariable('NAN', 'not available', '-1.0')
        c['CA.GOV'].AddVariable('MISSING', 'uses it with a sign', '-NAN')
        # ... and model-level equations (their names are not qualified by a sector code)
        c.model.AddGlobalEquation('EXOGENOUS_RATE', 'a rate the user calls exogenous', '0.05')
        c.model.AddGlobalEquation('DOUBLE_RATE', 'uses it first thing', 'EXOGENOUS_RATE*2')
    p.post(exo_named_post)
    Z.append(p)
    Z.append(two_zone('xz_gold_mixed', dict(gov='gold_gov', mm=True), dict(gov='cons', caps=True, firm='fm1'),
                      [G('AA.HH', 'BB.CAP'), G('BB.HH', 'AA.HH')]))
    # flows whose source / target are firms and governments (not only households), within and across zones
    Z.append(two_zone('xz_firm_gov_flows', dict(firm='fm1', caps=True), dict(gov='tre_cb', firm='multi'),
                      [G('AA.GOV', 'AA.BUS', name='SUBSIDY', inc_dst=True), G('AA.BUS', 'BB.HH', name='BONUS', inc_src=True, inc_dst=True),
                       G('BB.BUS', 'AA.GOV', name='LICENCE', inc_src=False, inc_dst=True), G('BB.TRE', 'AA.CAP', name='COUPON', inc_src=True, inc_dst=False)]))
    # user-registered income exclusions (public Model.AddCashFlowIncomeExclusion) added after all declarations, for either of two household-type sectors
    for nm, a, b in (('sim_caps_user_exclusion', 'CA.HH', 'CA.CAP'), ('sim_caps_user_exclusion_rev', 'CA.CAP', 'CA.HH')):
        p = single(nm, caps=True, firm='fm1')

        def post(c, a=a, b=b):
            c.model.AddCashFlowIncomeExclusion(c[a], 'ALLOW')
            c[a].AddVariable('ALLOW', 'allowance paid', '0.1*AfterTax')
            c[a].AddCashFlow('-ALLOW', None, 'allowance paid (excluded from income by the user)')
            c[b].AddCashFlow('+' + c[a].GetVariableName('ALLOW'), None, 'allowance received')
        p.post(post)
        p.features.add('user-income-exclusion')
        Z.append(p)
    # a model-level variable spelled like a LOCAL variable of some sector (the deposit market's r, the tax flow's T), used bare in an equation of every sector
    p = single('pc_global_shadows_local', gov='tre_cb')

    def shadow_post(c):
        c.model.AddGlobalEquation('r', 'world interest rate (model level)', '0.05')
        c.model.AddGlobalEquation('T', 'a model-level variable spelled like the tax variable', 'r * 2')
        for sec in c.model.GetSectors():
            sec.AddVariable('WRLD', 'uses names that are local here or model-level elsewhere', 'r + T')
    p.post(shadow_post)
    p.features.add('global-shadows-local')
    Z.append(p)
    # no central bank: the Treasury issues money and deposits; custom market / firm codes (no component of a variable name is the default spelling)
    Z.append(single('pc_treasury_issues_money', gov='tre_only'))
    p = single('sim_custom_codes', caps=True, firm='fm1')
    p.rename = {'LAB': 'WORK', 'GOOD': 'WIDGET', 'BUS': 'MAKER', 'HH': 'FOLK'}
    Z.append(p)
    p = single('pc_custom_codes', gov='tre_cb')
    p.rename = {'LAB': 'WORK', 'GOOD': 'WIDGET', 'BUS': 'MAKER'}
    Z.append(p)
    # two profit-making firms (two goods) and one capitalist sector receiving the dividends of both
    for nm, caps_first in (('two_firms_one_capitalist', True), ('two_firms_capitalist_last', False), ('two_firms_subclass_capitalist_last', False),
                           ('two_firms_prefix_market_codes', True)):
        p = single(nm, caps=caps_first, firm='fm1')
        # the second market's code: SERV, or - prefix-related codes - the first market is GOODS (declared and processed first), the second GOOD
        code2 = 'SERV'
        if 'prefix' in nm:
            code2 = 'GOOD'
            p.rename = {'GOOD': 'GOODS', 'HH': 'HH2'}
            p.decl('CA.HH0', lambda c: Sector(c['CA'], 'HH'), group='CA')       # a sector whose code is a prefix of another sector's code (HH / HH2)
        # ... the second firm an instance of a user's subclass of FixedMarginBusiness (how the library is meant to be extended)
        firm2 = ServiceBusiness if 'subclass' in nm else sd.FixedMarginBusiness
        if not caps_first:
            p.decl('CA.CAP', lambda c: sd.Capitalists(c['CA'], c.nm('CAP'), alpha_income=0.5, alpha_fin=0.2, consumption_good_name=c.nm('GOOD')), group='CA')
            p.params += [('CA.CAP', 'AlphaIncome'), ('CA.CAP', 'AlphaFin')]
        p.decl('CA.BUS2', lambda c, firm2=firm2, code2=code2: firm2(c['CA'], 'BUS2', profit_margin=0.3, labour_input_name=c.nm('LAB'), output_name=code2), group='CA')
        p.decl('CA.SERV', lambda c, code2=code2: Market(c['CA'], code2), group='CA', kind='market')

        def serv_post(c, code2=code2):
            c.model.AddCashFlowIncomeExclusion(c['CA.HH'], 'DEM_' + code2)
            c['CA.HH'].AddVariable('DEM_' + code2, 'services bought', '0.1*AfterTax')
            c['CA.GOV'].AddVariable('DEM_' + code2, 'services bought by the government', '5.0')
            c['CA.GOV'].SetExogenous('DEM_' + code2, exo(base=5.0))
        p.post(serv_post)
        p.features.add('two-dividend-payers')
        Z.append(p)
    # three regions of one zone; the goods market of the first has TWO rule-based suppliers carrying the same short code (the firms of the other regions)
    p = Plan('samezone_three_regions_two_importers')
    economy(p, 'AA', 'XXD', firm='multi', free_xr=False)
    economy(p, 'BB', 'XXD', gov='none', firm='multi', free_xr=False)
    economy(p, 'CC', 'XXD', gov='none', firm='multi', free_xr=False)

    def two_importers_post(c):
        mk = c['AA.GOOD']
        y = c['AA.HH'].GetVariableName('INC')
        mk.AddVariable('MU', 'share imported from BB', '0.2')
        mk.SetExogenous('MU', '[0.2,]*%d' % EXO_LEN)
        mk.AddSupplier(c['BB.BUS'], 'MU*{0}'.format(y))
        mk.AddSupplier(c['CC.BUS'], '0.1*{0}'.format(y))
        c['BB.BUS'].AddMarket(mk)
        c['CC.BUS'].AddMarket(mk)
    p.post(two_importers_post)
    p.features.add('imports')
    Z.append(p)
    # a non-profit firm (margin 0) with a capitalist sector in the country, on a goods market that has a second supplier in another region
    p = Plan('samezone_caps_margin0_second_supplier')
    economy(p, 'AA', 'XXD', caps=True, firm='fm0', free_xr=False)
    economy(p, 'BB', 'XXD', gov='none', firm='multi', free_xr=False)

    def second_supplier_post(c):
        mk = c['AA.GOOD']
        mk.AddSupplier(c['AA.BUS'])
        mk.AddSupplier(c['BB.BUS'], '0.15*{0}'.format(c['AA.GOOD'].GetVariableName('DEM_GOOD')))
        c['BB.BUS'].AddMarket(mk)
    p.post(second_supplier_post)
    p.features.add('imports')
    Z.append(p)
    # a sector living in the external (numeraire) country sends to / receives from real-currency sectors
    p = two_zone('xz_numeraire_fund', {}, dict(caps=True, firm='fm1'), [])
    p.decl('EXT.FUND', lambda c: Sector(c['EXT'], c.nm('FUND')), needs=('EXT',), group='EXT')
    gift(p, 'EXT.FUND', 'AA.HH', name='AID')
    gift(p, 'AA.HH', 'EXT.FUND', name='REPAY', inc_src=False)
    gift(p, 'BB.CAP', 'EXT.FUND', name='FEE')
    gift(p, 'EXT.FUND', 'BB.GOV', name='GRANT', inc_dst=False)
    gift(p, 'AA.HH', 'BB.HH')
    p.features.add('numeraire-sector')
    Z.append(p)
    # zone = federation, other zone = single country
    p = Plan('xz_fed_plus_single')
    external(p)
    reg_federation(p, 'F', 'FFD')
    economy(p, 'BB', 'BBD')
    gift(p, 'FN.HH', 'BB.HH')
    gift(p, 'BB.HH', 'FS.HH', inc_dst=False)
    p.positive.append(('EXT.XR', 'FFD'))
    p.post(lambda c: c.model.ExternalSector['XR'].SetExogenous('FFD', '[1.25,]*%d' % EXO_LEN))
    Z.append(p)
    p = Plan('xz_reg_plus_pc')
    external(p)
    reg_onecountry(p, 'RR', 'RRD')
    economy(p, 'BB', 'BBD', gov='tre_cb')
    gift(p, 'RR.HH_N', 'BB.HH')
    p.positive.append(('EXT.XR', 'RRD'))
    p.post(lambda c: c.model.ExternalSector['XR'].SetExogenous('RRD', '[0.8,]*%d' % EXO_LEN))
    Z.append(p)
    # a single-country zone declared BEFORE a federation whose sector codes it shares (TRE, CB, HH, ...); the federation's tax flow and
    # deposit market live in a region, not next to the treasury
    p = Plan('xz_single_then_fed_regionplaced')
    external(p)
    economy(p, 'BB', 'BBD', gov='tre_cb')
    reg_federation(p, 'F', 'FFD', place={'TF': 'N', 'DEP': 'S'})
    gift(p, 'BB.HH', 'FS.HH')
    p.positive.append(('EXT.XR', 'FFD'))
    p.post(lambda c: c.model.ExternalSector['XR'].SetExogenous('FFD', '[1.25,]*%d' % EXO_LEN))
    Z.append(p)
    # external present but unused
    p = Plan('ext_unused')
    external(p)
    economy(p, 'AA', 'AAD')
    Z.append(p)
    # three zones; the goods market of the first buys from the firms of BOTH other zones - two cross-currency suppliers of one market that carry the
    # same short sector code (the library's usual naming), each to be paid through its own FX leg (round-9 seed C07-9)
    for gov in ('cons', 'tre_cb'):
        p = Plan('p3_two_foreign_suppliers_' + gov)
        external(p)
        economy(p, 'AA', 'AAD', gov=gov, firm='multi')
        economy(p, 'BB', 'BBD', firm='multi')
        economy(p, 'CC', 'CCD', firm='multi')

        def two_foreign_post(c):
            mk = c['AA.GOOD']
            y = c['AA.HH'].GetVariableName('INC')
            mk.AddVariable('MU', 'share imported from BB', '0.2')
            mk.SetExogenous('MU', '[0.2,]*%d' % EXO_LEN)
            mk.AddSupplier(c['BB.BUS'], 'MU*{0}'.format(y))
            mk.AddSupplier(c['CC.BUS'], '0.1*{0}'.format(y))
            c['BB.BUS'].AddMarket(mk)
            c['CC.BUS'].AddMarket(mk)
        p.post(two_foreign_post)
        p.features.add('imports')
        p.meta.setdefault('imports', []).extend([('AA', 'BB'), ('AA', 'CC')])
        Z.append(p)
    if tier == 'thorough':
        Z.extend(zoo_product())
    return Z


def ambiguous():
    """Topologies whose wiring is ambiguous: the library refuses them (LogicError) - in every declaration order and under every renaming alike.
    (If a tree does build one of them, the builds are compared like any other topology's.)"""
    Z = []
    # two capitalist sectors in one country next to one dividend-paying firm: who receives the dividends is ambiguous
    p = single('sim_two_capitalists', caps=True, firm='fm1')
    p.decl('CA.RENT', lambda c: sd.Capitalists(c['CA'], c.nm('RENT'), alpha_income=0.4, alpha_fin=0.3, consumption_good_name=c.nm('GOOD')), group='CA')
    p.features.add('ambiguous')
    Z.append(p)
    # a market whose only stated supplier has a rule and no residual supplier is named: nobody is left to clear the market
    p = Plan('market_rule_supplier_only')
    country(p, 'CA')
    p.decl('CA.GOV', lambda c: Sector(c['CA'], c.nm('GOV')), group='CA')
    p.decl('CA.HH', lambda c: Sector(c['CA'], c.nm('HH')), group='CA')
    p.decl('CA.LAB', lambda c: Market(c['CA'], c.nm('LAB')), group='CA', kind='market')

    def rule_only_post(c):
        c['CA.GOV'].AddVariable('DEM_' + c.nm('LAB'), 'labour bought', '20.')
        c['CA.HH'].AddVariable('SUP_' + c.nm('LAB'), 'labour sold', '')
        c['CA.LAB'].AddSupplier(c['CA.HH'], 'SUP_%s/2' % c.nm('LAB'))
    p.post(rule_only_post)
    p.features.add('ambiguous')
    Z.append(p)
    return Z


def zoo_product():
    """Thorough tier: constrained product of the dimensions."""
    Z = []
    govs = ('cons', 'tre_cb', 'gold_gov', 'tre_goldcb')
    hhs = ('hh', 'hhexp')
    firms = ('fm0', 'fm1', 'multi')
    n = 0
    for gov, hh, caps, firm, mm in itertools.product(('cons', 'tre_cb'), hhs, (False, True), firms, (False, True)):
        if caps and firm == 'multi':
            continue      # NotImplementedError in the repo ('Not tested yet')
        if mm and gov != 'cons':
            continue
        Z.append(single('p1_%s_%s_%d_%s_%d' % (gov, hh, caps, firm, mm), gov=gov, hh=hh, caps=caps, firm=firm, mm=mm))
    G = lambda s, d, **kw: (lambda p: gift(p, s, d, **kw))
    I = lambda a, b: (lambda p: imports(p, a, b))
    for ga, gb in itertools.product(govs, govs):
        for hh, firm in itertools.product(hhs, firms):
            for li, flags in enumerate(itertools.product((True, False), (True, False))):
                n += 1
                links = [G('AA.HH', 'BB.HH', inc_src=flags[0], inc_dst=flags[1])]
                if li % 2:
                    links.append(G('BB.HH', 'AA.HH', inc_src=flags[1], inc_dst=flags[0]))
                if firm == 'multi':
                    links.append(I('AA', 'BB'))
                    if li >= 2:
                        links.append(I('BB', 'AA'))
                Z.append(two_zone('p2_%s_%s_%s_%s_%d' % (ga, gb, hh, firm, li), dict(gov=ga, hh=hh, firm=firm),
                                  dict(gov=gb, firm=firm), links))
    # three zones
    for gov in ('cons', 'tre_cb'):
        p = Plan('p3_' + gov)
        external(p)
        economy(p, 'AA', 'AAD', gov=gov)
        economy(p, 'BB', 'BBD')
        economy(p, 'CC', 'CCD', hh='hhexp')
        gift(p, 'AA.HH', 'BB.HH')
        gift(p, 'BB.HH', 'CC.HH', inc_src=False)
        gift(p, 'CC.HH', 'AA.HH', inc_dst=False)
        Z.append(p)
    return Z
