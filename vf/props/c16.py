"""C16 reading results never changes them: E3 (CrossHair) over the real accessors/renderers."""
import os

from vf import chx
from vf.common import Check, ROOT
import sfc_models.models
import sfc_models.base_solver
import sfc_models.utils

H = os.path.join(ROOT, 'vf', 'harness', 'c16_h.py')


def run(tier, seed):
    chk = Check('C16', tier, 'model_checking', seed)
    chk.encode(sfc_models.models.Model.GetTimeSeries, sfc_models.base_solver.BaseSolver.CreateCsvString,
               sfc_models.utils.TimeSeriesHolder.GenerateCSVtext, sfc_models.utils.TimeSeriesHolder.GetSeriesList)
    T = 90 if tier == "quick" else 300
    chk.bounds = {'stored series': 'symbolic int list, length 1..4', 'cutoff': 'None or 0..5 (argument or Model.TimeSeriesCutoff)',
                  'calls': '1..3, caller mutating the returned list or not', 'series group': ['main', 'step', 'initial'], 'model horizon': 'Model.MaxTime 0..5 independent of the stored length (groups longer and shorter than the model horizon)',
                  'rendering': 'ragged lengths 0..3 per series, 1..3 repeated renders; every sequence of <= 4 renders interleaved over the three series groups (main, step trace, initial steady state); BaseSolver variable list with t at every position',
                  'per_condition_timeout_s': T}
    chk.assumptions = ['CrossHair models Python ints/lists/bools symbolically (z3); verdict "Confirmed over all paths" = exhaustive within the stated sizes']
    chk.outside = ['series longer than 4', 'more than 3 calls', 'symbolic cell values in the rendered text (formatting realises them)']
    res = chx.run_file(H, timeout=T)
    chx.absorb(chk, H, res)
    chk.extra['states'] = max(len(res), 1)
    chk.extra['transitions'] = max(len(res), 1)
    chk.exhaustive = all(r['verdict'] in ('confirmed', 'counterexample') for r in res)
    return chk.finish()
