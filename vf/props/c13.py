"""C13 name substitution is hygienic and simultaneous: E1 over a template grammar of expressions x renaming maps."""
import ast
import itertools

import z3

from vf.common import Check
from vf.eqsmt import to_z3, Untranslatable, Decider, val_fraction
from vf.par import pmap
import sfc_models.utils as U
from sfc_models.equation import Equation, Term, EquationBlock
from sfc_models.utils import LogicError

NAMES = ['x', 'xx', 'x1', '_x', 'x_', 'e', 'j', 'k']
# names whose spelling a numeric constructor (float(), complex()) would accept: they are names to the tokenizer and to eval()
NUMLIKE = ['INF', 'nan', 'Infinity', 'inf', 'NaN']
# identifiers outside ASCII (Python 3 names; the tokenizer reports them as NAME tokens like any other)
UNINAMES = ['α', 'αβ', 'xα', 'é1', 'Δx']
LITS = ['1e5', '0x1F', '2j', '.5', '1_000', '1e+5', '"x"', "'xx e'", '3', '2.5e-3']
# formatted string literals: their literal parts and format specifications are string contents (separate tokens since Python 3.12), the replacement fields hold names
FLITS = ['f"x{x}"', 'f"{x:e}"', "f'e{e}j'", 'f"{xx}x{x1:x}"']
MAPS = [
    {'x': 'y'}, {'x': 'xx'}, {'xx': 'x'}, {'x': 'xx', 'xx': 'x'}, {'x': 'x1', 'x1': 'x_'}, {'e': 'E'}, {'j': 'J'}, {'k': 'kk'},
    {'x': 'e'}, {'_x': 'x_', 'x_': '_x'}, {'x': 'y', 'xx': 'yy', 'x1': 'y1'}, {'x': 'j', 'j': 'x'}, {'x': 'x'}, {'e': 'j', 'j': 'k', 'k': 'e'},
    {'x_': 'HH__x', 'x': 'HH__x_'}, {'INF': 'CB__INF', 'x': 'y'},
    # keys spelled like the tail of a numeric literal (exponent, hex digits, digit group, imaginary unit): legal names that must not be found inside numbers
    {'e5': 'HH__e5', 'x1F': 'HH__x1F', '_000': 'HH__k', 'j': 'HH__j', 'e': 'HH__e', 'E': 'F', 'x': 'HH__x'}, {'nan': 'HH__nan', 'Infinity': 'HH__Infinity', 'inf': 'nan_', 'NaN': 'inf'},
    # only non-ASCII keys; a swap between an ASCII and a non-ASCII name
    {'α': 'HH__α', 'é1': 'y'}, {'x': 'α', 'α': 'x', 'Δx': 'dx'}
]


def expressions(tier):
    atoms = NAMES + LITS + NUMLIKE
    out = []
    ops2 = ['+', '-', '*', '/', '**', '<', '==', ' - ', '  *']
    for a, op, b in itertools.product(atoms, ops2, atoms):
        out.append('%s%s%s' % (a, op, b))
    n3 = NAMES if tier == 'thorough' else NAMES[:5]
    for a, b, c in itertools.product(n3, n3, NAMES):
        out.append('%s + %s*%s' % (a, b, c))
        out.append('(%s-%s)/%s' % (a, b, c))
        if tier == 'thorough':
            out.append('-%s**%s - +%s' % (a, b, c))
            out.append('(%s > %s)*%s' % (a, b, c))
    for f, a in itertools.product(NAMES, atoms):
        out.append('%s(%s)' % (f, a))
        out.append('%s (k -1 )+%s' % (f, a))
        out.append('%s(k-1)*%s' % (f, a))
    for f, a, b in itertools.product(NAMES[:4], NAMES, atoms[:12]):
        out.append('%s(%s, %s)' % (f, a, b))
    for a, b in itertools.product(atoms, atoms):
        out.append('[%s, %s]' % (a, b))
        out.append('[%s,]*%s' % (a, b))
    for a, op, b in itertools.product(UNINAMES, ops2[:5], UNINAMES + NAMES[:3] + LITS[:3]):
        out.append('%s%s%s' % (a, op, b))
        out.append('%s%s%s' % (b, op, a))
    for f, a in itertools.product(NAMES[:2] + UNINAMES[:2], UNINAMES):
        out.append('%s(%s)' % (f, a))
        out.append('%s(k-1)*%s + 1' % (f, a))
        out.append('max(2.0, %s)' % a)
    for a, op, b in itertools.product(FLITS, ['+', '*', ' + '], FLITS + NAMES[:3] + LITS[6:8]):
        out.append('%s%s%s' % (a, op, b))
        out.append('%s%s%s' % (b, op, a))
    for f, a in itertools.product(NAMES[:3], FLITS):
        out.append('%s(%s)' % (f, a))
        out.append('[%s, %s]' % (a, f))
    # one logical line written over several physical lines, with a comment ending a line that is not the last
    for a, b, c in itertools.product(NAMES[:3], NAMES[:4], NAMES[:3]):
        out.append('(%s  # what is earned\n + %s) * %s' % (a, b, c))
        out.append('[%s,\n# the second entry\n%s][1] - %s' % (a, b, c))
        out.append('max(%s,  # first\n    %s)' % (a, b))
        out.append('(%s\n + %s)' % (a, b))
    for a in atoms:
        out += ['-%s' % a, '+ %s' % a, '(%s)' % a, '%s' % a, '((%s))*%s' % (a, a), ' %s ' % a, '+%s' % a, ' - %s' % a, '%s ' % a]
    return out


def src_names(expr):
    """Name tokens in order of appearance, by the harness (ast positions), independent of tokenize."""
    tree = ast.parse(expr.strip(), mode='eval')
    nodes = [n for n in ast.walk(tree) if isinstance(n, ast.Name)]
    nodes.sort(key=lambda n: (n.lineno, n.col_offset))
    return [n.id for n in nodes]


def semantic_equal(e, out, mp, D):
    """val(e)[n->X_n] == val(out)[rho(n)->X_n] for all valuations (rho injective on the names of e)."""
    inv = {v: k for k, v in mp.items()}
    names = set(src_names(e))
    unren = {n for n in names if n not in mp}

    def env_a(n):
        return z3.Real('X_' + n)

    def back(m):
        # a name of the output that is an unrenamed name of e stands for itself; otherwise it is the image of its preimage
        if m in unren:
            return m
        return inv.get(m, m)

    def env_b(m):
        return z3.Real('X_' + back(m))
    a = to_z3(e, env_a, opaque=True)
    b = to_z3(out, env_b, opaque=True, fname=back)
    if z3.eq(z3.simplify(a - b), z3.RealVal(0)):
        return 'unsat', None
    r, m = D.decide([a != b], ladder=False, timeout_ms=10000)
    return r, m


def structure_equal(e, out, mp):
    """The output, with every renamed name mapped back, is the same syntax tree as the input: operators, numbers and STRING CONTENTS (plain and
    formatted) untouched.  Only meaningful when the renaming merges no two names of e."""
    inv = {v: k for k, v in mp.items()}
    unren = {n for n in set(src_names(e)) if n not in mp}

    class Back(ast.NodeTransformer):
        def visit_Name(self, n):
            return ast.copy_location(ast.Name(id=n.id if n.id in unren else inv.get(n.id, n.id), ctx=n.ctx), n)
    a = ast.dump(ast.parse(e.strip(), mode='eval'))
    b = ast.dump(Back().visit(ast.parse(out.strip(), mode='eval')))
    return a == b


def merges(e, mp):
    names = set(src_names(e))
    img = {}
    for n in names:
        t = mp.get(n, n)
        if t in img and img[t] != n:
            return True
        img[t] = n
    return False


def chunk_work(chunk):
    D = Decider()
    res = {'n': 0, 'sem': 0, 'tok': 0, 'bad': [], 'unknown': [], 'skipped_merge': 0, 'untranslatable': 0, 'samples': []}
    for e in chunk:
        try:
            want_names = src_names(e)
        except SyntaxError:
            continue
        res['n'] += 1
        got = U.list_tokens(e)
        res['tok'] += 1
        if got != want_names:
            res['bad'].append(('list_tokens', e, None, repr(got), repr(want_names)))
        for mp in MAPS:
            if not any(k in want_names for k in mp) and len(res['samples']) > 3:
                # still exercised once per expression below for the no-op direction
                pass
            valid_targets = all(t.isidentifier() for t in mp.values())
            outs = []
            # the object-level route: the expression held as Equation terms (normalised by the term parser), renamed by Equation.ReplaceTokensFromLookup
            try:
                eq = Equation('lhs', '', e)
                before = eq.RHS()
                eq.ReplaceTokensFromLookup(mp)
                eout = eq.RHS()
            except (LogicError, SyntaxError, NotImplementedError, ValueError):
                eout = None
            if eout is not None and all(t.isidentifier() for t in mp.values()):
                res['tok'] += 1
                try:
                    bn, on = src_names(before), src_names(eout)
                    if on != [mp.get(n_, n_) for n_ in bn]:
                        res['bad'].append(('Equation.ReplaceTokensFromLookup', e, mp, eout, 'names of output %r, held expression %r has %r' % (on, before, bn)))
                    elif not merges(before, mp) and not structure_equal(before, eout, mp):
                        res['bad'].append(('Equation.ReplaceTokensFromLookup', e, mp, eout, 'something other than the requested names changed (operators, numbers or string contents)'))
                    elif not merges(before, mp):
                        r, m = semantic_equal(before, eout, mp, D)
                        res['sem'] += 1
                        if r == 'sat':
                            res['bad'].append(('Equation.ReplaceTokensFromLookup', e, mp, eout, 'value differs under the renamed environment'))
                        elif r != 'unsat':
                            res['unknown'].append(('Equation.ReplaceTokensFromLookup', e, mp))
                except SyntaxError:
                    res['bad'].append(('Equation.ReplaceTokensFromLookup', e, mp, eout, 'output does not parse'))
                except Untranslatable:
                    res['untranslatable'] += 1
            # one Term object (the documented way to hand a term around) copied into two equations of a block, then the whole block renamed:
            # every copy must be renamed
            if eout is not None and all(t.isidentifier() for t in mp.values()) and not merges(before, mp):
                try:
                    t0 = Term(e)
                    blk = EquationBlock()
                    q1 = Equation('first', '', [t0]); q2 = Equation('second', '', [t0, Term('zz_other')]); q3 = Equation('third', '', [Term(t0)])
                    for q in (q1, q2, q3):
                        blk.AddEquation(q)
                    blk.ReplaceTokensFromLookup(mp)
                    r1, r2, r3 = blk['first'].RHS(), blk['second'].RHS(), blk['third'].RHS()
                    res['tok'] += 1
                    if src_names(r1) != src_names(r3) or src_names(r2)[:len(src_names(r1))] != src_names(r1):
                        res['bad'].append(('EquationBlock.ReplaceTokensFromLookup(shared Term)', e, mp, '%s | %s | %s' % (r1, r2, r3), 'copies of one term renamed differently'))
                except (LogicError, SyntaxError, NotImplementedError, ValueError):
                    pass
            outs.append(('replace_token_from_lookup', U.replace_token_from_lookup(e, mp)))
            if len(mp) == 1:
                (k, v), = mp.items()
                outs.append(('replace_token', U.replace_token(e, k, v)))
            for fn, out in outs:
                # hygiene at token level: names of the output are exactly the renamed names, in order
                if valid_targets:
                    try:
                        on = src_names(out)
                    except SyntaxError:
                        res['bad'].append((fn, e, mp, out, 'output does not parse'))
                        continue
                    expect = [mp.get(n, n) for n in want_names]
                    res['tok'] += 1
                    if on != expect:
                        res['bad'].append((fn, e, mp, out, 'names of output %r, expected %r' % (on, expect)))
                        continue
                    if merges(e, mp):
                        res['skipped_merge'] += 1
                        continue
                    if not structure_equal(e, out, mp):
                        res['bad'].append((fn, e, mp, out, 'something other than the requested names changed (operators, numbers or string contents)'))
                        continue
                    try:
                        r, m = semantic_equal(e, out, mp, D)
                    except Untranslatable:
                        res['untranslatable'] += 1
                        continue
                    res['sem'] += 1
                    if r == 'sat':
                        res['bad'].append((fn, e, mp, out, 'value differs under the renamed environment'))
                    elif r != 'unsat':
                        res['unknown'].append((fn, e, mp))
                    if len(res['samples']) < 3 and any(k in want_names for k in mp):
                        res['samples'].append({'function': fn, 'expression': e, 'map': mp, 'output': out, 'verdict': r})
    res['solver_s'], res['queries'] = D.solver_s, D.queries
    return res


REPLAY = '''
import sys, ast
import sfc_models.utils as U
from sfc_models.equation import Equation, Term, EquationBlock
from sfc_models.utils import LogicError
fn, e, mp = %(fn)r, %(e)r, %(mp)r
if fn == 'list_tokens':
    from vf.props.c13 import src_names
    got = U.list_tokens(e); want = src_names(e)
    print('list_tokens(%%r) = %%r, name tokens in order of appearance: %%r' %% (e, got, want)); sys.exit(1 if got != want else 0)
if fn.startswith('EquationBlock'):
    from sfc_models.equation import Equation, Term, EquationBlock
    t0 = Term(e); blk = EquationBlock()
    for q in (Equation('first', '', [t0]), Equation('second', '', [t0, Term('zz_other')]), Equation('third', '', [Term(t0)])): blk.AddEquation(q)
    blk.ReplaceTokensFromLookup(mp)
    r1, r2, r3 = blk['first'].RHS(), blk['second'].RHS(), blk['third'].RHS()
    print('one term %%r in three equations renamed by %%r -> %%r | %%r | %%r' %% (e, mp, r1, r2, r3))
    from vf.props.c13 import src_names
    sys.exit(1 if (src_names(r1) != src_names(r3) or src_names(r2)[:len(src_names(r1))] != src_names(r1)) else 0)
if fn == 'Equation.ReplaceTokensFromLookup':
    from sfc_models.equation import Equation, Term, EquationBlock
    eq = Equation('lhs', '', e); e = eq.RHS(); eq.ReplaceTokensFromLookup(mp); out = eq.RHS()
else:
    out = U.replace_token_from_lookup(e, mp) if fn == 'replace_token_from_lookup' else U.replace_token(e, *list(mp.items())[0])
print('%%s(%%r, %%r) -> %%r' %% (fn, e, mp, out))
from vf.props.c13 import src_names
try:
    on = src_names(out)
except SyntaxError:
    print('output does not parse'); sys.exit(1)
expect = [mp.get(n, n) for n in src_names(e)]
if on != expect:
    print('names of the output', on, 'expected', expect); sys.exit(1)
inv = {v: k for k, v in mp.items()}
class R(ast.NodeTransformer):
    def visit_Name(self, n):
        return ast.copy_location(ast.Name(id=inv.get(n.id, n.id), ctx=n.ctx), n)
a = ast.dump(ast.parse(e.strip(), mode='eval'))
b = ast.dump(R().visit(ast.parse(out.strip(), mode='eval')))
print('structure preserved' if a == b else 'structure changed')
sys.exit(1 if a != b else 0)
'''


def run(tier, seed):
    chk = Check('C13', tier, 'translation_validation', seed)
    import sfc_models.equation
    chk.encode(U.list_tokens, U.replace_token, U.replace_token_from_lookup, sfc_models.equation.Term.ReplaceTokensFromLookup, sfc_models.equation.Equation.ReplaceTokensFromLookup)
    ex = expressions(tier)
    chk.bounds = {'expressions': len(ex), 'renaming maps': len(MAPS), 'names': NAMES + NUMLIKE + UNINAMES, 'literals': LITS + FLITS,
                  'grammar': 'binary/ternary arithmetic, power, comparisons, calls (1-2 args), lag notation x(k-1) and tokenizer-spaced, '
                             'list literals, unary signs, brackets; <= 7 tokens',
                  'numeric domain': 'all reals for every name; string/complex literals as opaque constants; function symbols uninterpreted'}
    chk.assumptions = ['the semantic clause is checked when the map does not merge two distinct names of the expression (as the property states)',
                       'names are not Python keywords; text is tokenizable']
    chk.outside = ['expressions of more than 7 tokens', 'keywords as names', 'untokenizable text']
    n = 64
    chunks = [ex[i::n] for i in range(n)]
    tot = {'n': 0, 'sem': 0, 'tok': 0, 'skipped_merge': 0, 'untranslatable': 0}
    nbad = [0]
    for st, r in pmap(chunk_work, chunks):
        if st != 'ok':
            chk.harness_errors.append(r[:600])
            continue
        for k in tot:
            tot[k] += r[k]
        chk.solver_s += r['solver_s']
        chk.queries += r['queries']
        for s in r['samples']:
            chk.sample(s, cap=10)
        nbad[0] += len(r['bad']) + len(r['unknown'])
        for fn, e, mp in r['unknown']:
            chk.inconclusive += 1
            chk.inconclusive_notes.append('%s %r %r' % (fn, e, mp))
        for fn, e, mp, out, why in r['bad']:
            chk.violation('%s:%s:%s' % (fn, e, sorted(mp.items()) if mp else ''), '%s(%r, %r) -> %r: %s' % (fn, e, mp, out, why),
                          REPLAY % dict(fn=fn, e=e, mp=mp))
    chk.obligations += tot['sem'] + tot['tok']
    chk.discharged += tot['sem'] + tot['tok'] - nbad[0]
    chk.distinct = set(range(tot['n']))
    chk.counters.update(tot)
    chk.counters['programs'] = tot['n']
    chk.witness(tot['sem'] > 1000, 'semantic obligations were generated')
    chk.exhaustive = True
    return chk.finish()
