"""C14 equation text is classified faithfully; comments are inert.
E2 (semi-symbolic strings through the unmodified EquationParser.ParseString) for free comment text; E1 for the meaning of
parsed right-hand sides over enumerated line forms; enumerated descriptions through Model.main()."""
import itertools

import z3

from vf import symx
from vf.symx import Driver, SymStr
from vf.common import Check, stable_hash
from vf.eqsmt import to_z3, Untranslatable
from vf.par import pmap
from vf.emit import emit
from vf.zoo import Ctx
from sfc_models.equation_parser import EquationParser
import sfc_models.equation_parser
import sfc_models.models
import sfc_models.sector

SITES = {
    'equation-line':        "x = 1 #{C}\ny = x + 2\nz = y(k-1)\nx(0) = 3\n# Exogenous vars\ng = [1, 2]\nMaxTime = 3",
    'last-endogenous-line': "x = 1\ny = x + 2 # trailing:{C}\nz = y(k-1)\nx(0) = 3\n# Exogenous vars\ng = [1, 2]\nMaxTime = 3",
    'lag-line':             "x = 1\ny = x + 2\nz = y(k-1)   #{C}\nx(0) = 3\n# Exogenous vars\ng = [1, 2]\nMaxTime = 3",
    'initial-condition':    "x = 1\ny = x + 2\nz = y(k-1)\nx(0) = 3 # {C}\n# Exogenous vars\ng = [1, 2]\nMaxTime = 3",
    'marker-line':          "x = 1\ny = x + 2\nz = y(k-1)\nx(0) = 3\n# Exogenous vars {C}\ng = [1, 2]\nMaxTime = 3",
    'exogenous-line':       "x = 1\ny = x + 2\nz = y(k-1)\nx(0) = 3\n# Exogenous vars\ng = [1, 2] #{C}\nMaxTime = 3",
    'parameter-line':       "x = 1\ny = x + 2\nz = y(k-1)\nx(0) = 3\n# Exogenous vars\ng = [1, 2]\nMaxTime = 3 #{C}",
    # a commented line followed by an empty / blank line, with lines of every class still to come
    'equation-then-empty':  "x = 1 #{C}\n\ny = x + 2\nz = y(k-1)\nx(0) = 3\n# Exogenous vars\ng = [1, 2]\nMaxTime = 3",
    'parameter-then-blank': "x = 1\nMaxTime = 3 # {C}\n   \ny = x + 2\nz = y(k-1)\nx(0) = 3\n# Exogenous vars\ng = [1, 2]",
    'lag-then-empty-twice': "x = 1\nz = y(k-1)  #{C}\n\n\ny = x + 2\nx(0) = 3\n# Exogenous vars\ng = [1, 2]\nMaxTime = 3",
    'comment-only-line':    "x = 1\n#{C}\ny = x + 2\nz = y(k-1)\nx(0) = 3\n# Exogenous vars\ng = [1, 2]\nMaxTime = 3",
}


def lists_of(p, msg):
    return (list(p.Endogenous), list(p.Lagged), list(p.Exogenous), dict(p.InitialConditions), list(p.Decoration), p.MaxTime, p.Err_Tolerance, msg)


def reference(site, comment_is_marker=False):
    text = SITES[site]
    if site == 'comment-only-line' and comment_is_marker:
        text = text.replace('#{C}', '# exogenous')        # a stand-alone comment carrying the marker word IS the section marker
    else:
        text = text.replace('{C}', '')
    p = EquationParser()
    msg = p.ParseString(text)
    return lists_of(p, msg)


def sym_case(case):
    site, n = case
    D = Driver(timeout_ms=10000, max_paths=2000, max_seconds=120)
    out = {'case': case, 'viol': None, 'unknown': 0, 'outcomes': {}}
    pre, post = SITES[site].split('{C}')

    def path():
        # any character from TAB up to '~' except the newline (which ends a comment by definition): form feed, vertical tab, carriage return and the
        # file / group / record separators are ordinary comment text
        c = SymStr.fresh('c', n, lo=9, hi=126)
        for ch in c.chars:
            D.s.add(ch.e != 10)
        text = SymStr(list(pre) + c.chars + list(post)) if n else pre + post
        p = EquationParser()
        try:
            msg = p.ParseString(text)
        except symx.PathEnd:
            raise
        except Exception as e:
            if out['viol'] is None:
                r = D.check()
                out['viol'] = {'why': 'ParseString raises %r' % (e,), 'comment': c.concretize(D.s.model()) if r == z3.sat else '?'}
            return 'raised'
        has_marker = (n >= 9) and ('exogenous' in c.lower())
        want = reference(site, comment_is_marker=bool(has_marker))
        got = lists_of(p, msg)
        o = 'same' if got == want else 'differs'
        out['outcomes'][o] = out['outcomes'].get(o, 0) + 1
        if o == 'differs' and out['viol'] is None:
            r = D.check()
            witness = c.concretize(D.s.model()) if r == z3.sat else None
            if witness is None:
                out['unknown'] += 1
            else:
                out['viol'] = {'why': 'parser lists differ from those of the comment-free block', 'comment': witness}
        return o
    D.run_all(path)
    out.update(paths=D.paths, forks=D.forks, queries=D.queries, solver_s=D.solver_s, exhaustive=D.exhaustive, dunknown=D.unknown)
    return out


REPLAY_SYM = '''
import sys
from sfc_models.equation_parser import EquationParser
from vf.props.c14 import SITES, reference, lists_of
site, comment = %(site)r, %(comment)r
p = EquationParser()
try:
    msg = p.ParseString(SITES[site].replace('{C}', comment))
except Exception as e:
    print('ParseString raises', repr(e)); sys.exit(1)
got = lists_of(p, msg)
want = reference(site, comment_is_marker=(site == 'comment-only-line' and 'exogenous' in comment.lower()))
print('comment text %%r at site %%s' %% (comment, site)); print('parsed  :', got); print('expected:', want)
sys.exit(1 if got != want else 0)
'''

# ---- enumerated line forms ---------------------------------------------------------------------------------------------------------

RHS = ['y + 1', 'y+1', '  y  +  2*w ', '(y - w)/4', '-y', '0.5 * y ** 2', 'max(y, w)']
EQ_SPACING = ['%s = %s', '%s=%s', '  %s   =   %s  ', '%s =%s', '\t%s = %s']
LAG_FORMS = ['%s(k-1)', '%s(t-1)', '%s (k -1 )', '%s (t -1 )', '%s (k-1)']      # incl. the tokenizer-spaced forms the model emits for X(k-1) and X(t-1), and a blank before the bracket


MARKERS = ['# exogenous section', '   # Exogenous Variables', '\t#exogenous', 'exogenous', '  Exogenous  ', '# EXOGENOUS', ' #   Exogenous variables follow   ']


def name_pool(tier):
    """Variable names built from the characters of the parser's own structural tokens '(0)', '(k-1)', '(t-1)', 't', 'k':
    a name may end or begin with any of them and is still one name."""
    alpha = ['0', '1', 'k', 't', '_']
    out = []
    for base in ('x', 'H', 'k_', 't'):
        for n in range(1, 3):
            for suf in itertools.product(alpha, repeat=n):
                nm = base + ''.join(suf)
                if nm in ('t', 'k', 't_minus_1'):
                    continue
                out.append(nm)
    if tier == 'quick':
        out = [nm for i, nm in enumerate(out) if i % 3 == 0 or nm.endswith('0')]
    # names that CONTAIN the word of the section marker (what a model emits for a sector variable a user calls EXOGENOUS_LEVEL): still one name in an equation
    out += ['exogenous_g', 'HH__EXOGENOUS_LEVEL', 'nonexogenous', 'Exogenous1']
    return out


MALFORMED = ['x <= 5', 'q3(k-1) = 3', 'q2 q1 = 4', 'q\tr = 2', 'q(0)z = 1.', 'qq(0)(0) = 3', 'q9 = y(k-1) + 2', 'q8 = 2*y(k-1)', '= 77.', 'q7 = w(t-1) - y', 'q6 = y(k-1) + w(k-1)', 'q5 = y(k-1)(k-1)', 'q4 = (y)(k-1)']


def make_block(rnd, rhs, sp, lf, with_t, marker, xn='x', ln='L'):
    endo = [(xn, rhs), ('y', '2.0'), ('w', xn + ' / 3')]
    lag = [(ln, xn)]
    if with_t is True:
        endo.append(('t', 'k + 100'))
    elif with_t == 'lagged':
        # the user's own time axis, given only through a lagged line
        endo.append(('tnext', 't + 0.25'))
        lag.append(('t', 'tnext'))
    ic = {xn: '5.', ln: '-1'}
    exo = [('g', '[1., 2., 3.]')]
    lines = [('endo', sp % (v, e)) for v, e in endo]
    lines += [('lag', sp % (v, lf % src)) for v, src in lag]
    lines += [('ic', sp % (v + ('(0)' if i % 2 == 0 else ' (0)'), e)) for i, (v, e) in enumerate(ic.items())]
    lines += [('param', sp % ('MaxTime', '7')), ('param', sp % ('Err_Tolerance', '1e-4'))]
    lines += [('bad', 'oops no equals'), ('bad', 'a = b = c'), ('blank', ''), ('blank', '   ')]
    # malformed: a lag inside a larger expression, no variable name
    lines += [('bad', MALFORMED[j]) for j in range(len(MALFORMED)) if (len(rhs) + j) % 2 == 0 or xn != 'x']
    rnd.shuffle(lines)
    # "in any order": run parameters and initial conditions may also be written after the section marker, among the exogenous lines
    after = []
    if (len(rhs) + len(xn)) % 3 == 0:
        after = [l for l in lines if l[0] in ('ic', 'param')][:2]
        lines = [l for l in lines if l not in after]
    tail = [sp % (v, e) for v, e in exo] + [l for _, l in after]
    rnd.shuffle(tail)
    text = '\n'.join(l for _, l in lines) + '\n' + marker + '\n' + '\n'.join(tail)
    return (text, dict(endo=endo, lag=lag, ic=ic, exo=exo, with_t=with_t))


def line_blocks(tier):
    """(text, expected classification) pairs: lines of every class in several orders and spacings."""
    out = []
    import random
    rnd = random.Random(12345)
    for ri, rhs in enumerate(RHS):
        for si, sp in enumerate(EQ_SPACING):
            for li, lf in enumerate(LAG_FORMS):
                for with_t in (False, True, 'lagged'):
                    if tier == 'quick' and (ri + si + li) % 2:
                        continue
                    marker = MARKERS[(ri * 5 + si * 3 + li + (2 if with_t == 'lagged' else int(with_t))) % len(MARKERS)]
                    out.append(make_block(rnd, rhs, sp, lf, with_t, marker))
    # the same blocks with the stock variable and its lag named from the structural-token alphabet
    pool = name_pool(tier)
    for i, nm in enumerate(pool):
        rhs, sp, lf = RHS[i % len(RHS)], EQ_SPACING[i % len(EQ_SPACING)], LAG_FORMS[i % len(LAG_FORMS)]
        with_t = (False, True, 'lagged')[i % 3]
        out.append(make_block(rnd, rhs, sp, lf, with_t, MARKERS[i % len(MARKERS)], xn=nm, ln='LAG_' + pool[(i + 7) % len(pool)]))
    return out


def lines_chunk(items):
    bad = []
    n = 0
    env = lambda nme: z3.Real('V_' + nme)
    for text, exp in items:
        p = EquationParser()
        try:
            msg = p.ParseString(text)
        except Exception as e:
            bad.append((text, 'raises %r' % (e,)))
            continue
        n += 1
        problems = []
        want_endo = dict(exp['endo'])
        if exp['with_t'] is False:
            want_endo['t'] = 'k'
        got_endo = dict(p.Endogenous)
        if len(p.Endogenous) != len(got_endo) or set(got_endo) != set(want_endo):
            problems.append('simultaneous variables %r, expected %r' % (sorted(got_endo), sorted(want_endo)))
        else:
            for v in want_endo:
                try:
                    a, b = to_z3(got_endo[v], env), to_z3(want_endo[v], env)
                    if not z3.eq(z3.simplify(a - b), z3.RealVal(0)):
                        s = z3.Solver()
                        s.add(a != b)
                        if s.check() != z3.unsat:
                            problems.append('right-hand side of %s parsed as %r, written %r' % (v, got_endo[v], want_endo[v]))
                except Untranslatable as ex:
                    problems.append('parsed right-hand side of %s unusable: %s' % (v, ex))
        if sorted((v, s.strip()) for v, s in p.Lagged) != sorted(exp['lag']):
            problems.append('lagged %r, expected %r' % (p.Lagged, exp['lag']))
        if sorted(p.InitialConditions) != sorted(exp['ic']):
            problems.append('initial conditions stated for %r, parser files them under %r' % (sorted(exp['ic']), sorted(p.InitialConditions)))
        elif {k: float(v) for k, v in p.InitialConditions.items()} != {k: float(v) for k, v in exp['ic'].items()}:
            problems.append('initial conditions %r, expected %r' % (p.InitialConditions, exp['ic']))
        if [(v, ''.join(e.split())) for v, e in p.Exogenous] != [(v, ''.join(e.split())) for v, e in exp['exo']]:
            problems.append('exogenous %r, expected %r' % (p.Exogenous, exp['exo']))
        if p.MaxTime != 7 or float(p.Err_Tolerance) != 1e-4:
            problems.append('run parameters MaxTime=%r Err_Tolerance=%r' % (p.MaxTime, p.Err_Tolerance))
        if 'oops no equals' not in msg or 'a = b = c' not in msg:
            problems.append('malformed lines are not reported in the returned message %r' % (msg,))
        for mal in MALFORMED:
            if mal in text and mal not in msg:
                problems.append('malformed line %r is not reported in the returned message' % (mal,))
        stray = [v for v in [x for x, _ in p.Endogenous] + [x for x, _ in p.Lagged] + [x for x, _ in p.Exogenous] + list(p.InitialConditions) if v in ('q9', 'q8', 'q7', 'q6', 'q5', 'q4', '') or not v.replace('_', 'a').isalnum() or v in ('qz', 'qq')]
        if stray:
            problems.append('malformed lines were read as definitions of %r' % (stray,))
        if p.Decoration:
            problems.append('decoration list not empty after ParseString')
        if problems:
            bad.append((text, problems[0]))
    return {'n': n, 'bad': bad}


# ---- descriptions through Model.main() -----------------------------------------------------------------------------------------------

TOKENS = ['=', '#', '7', 'exogenous', 'Exogenous', 'EXOGENOUS', '(0)', '(k-1)', 'MaxTime', ' ', 'shock', 'x', ':', "'", '"', '%s']


def descriptions(tier):
    out = ['']
    L = 2 if tier == 'quick' else 3
    for n in range(1, L + 1):
        for combo in itertools.product(TOKENS, repeat=n):
            if n == 3 and (stable_hash(combo) % 5):
                continue
            out.append(' '.join(combo) if n > 1 and combo[0] != ' ' else ''.join(combo))
    # free text with a line break in it (a description pasted from elsewhere)
    out += ['first line\nS__Y = 7.0', 'two\nlines', 'x\n= 5', 'trailing\n', '\nMaxTime = 99', 'carriage\rS__Z = 1.0']
    return out


def build_model(desc, long_name):
    from sfc_models.models import Model, Country
    from sfc_models.sector import Sector
    m = Model()
    c = Country(m, 'CO', long_name=long_name or 'Country CO')
    s = Sector(c, 'S', long_name=long_name or 'Sector S')
    s.AddVariable('A', desc, '0.5*A + G')
    s.AddVariable('G', desc, '0.0')
    s.AddVariable('B', 'plain', 'A + 1')
    s.AddVariable('LAGA', desc, 'A(k-1)')
    s.AddCashFlow('+A', None, desc)
    m.AddExogenous('S', 'G', '[1., 2., 3.]')
    m.AddInitialCondition('S', 'A', 2.0)
    m.AddGlobalEquation('glob', desc, 'S__A * 2') if False else None
    ctx = Ctx()
    ctx.model = m
    return ctx


def desc_chunk(descs):
    base = emit(build_model('', ''))
    want = lists_of(base.parser, '')
    bad = []
    n = 0
    for d in descs:
        for long_name in ('', d):
            try:
                em = emit(build_model(d, long_name), maxtime=1)
            except Exception as e:
                bad.append((d, long_name, 'building raises %r' % (e,)))
                continue
            n += 1
            got = lists_of(em.parser, '')
            if em.err is not None:
                bad.append((d, long_name, 'Model.main() raises %r' % (em.err,)))
            elif (got[0], got[1], got[2], got[3]) != (want[0], want[1], want[2], want[3]):
                bad.append((d, long_name, 'parsed system differs: %r vs %r' % (got[:4], want[:4])))
    return {'n': n, 'bad': bad}


REPLAY_LINES = '''
import sys
from vf.props import c14
r = c14.lines_chunk([%(item)r]); print(r['bad']); sys.exit(1 if r['bad'] else 0)
'''
REPLAY_DESC = '''
import sys
from vf.props import c14
r = c14.desc_chunk([%(d)r]); print(r['bad'][:2]); sys.exit(1 if r['bad'] else 0)
'''


def run(tier, seed):
    chk = Check('C14', tier, 'model_checking', seed)
    chk.encode(sfc_models.equation_parser.EquationParser.ParseString, sfc_models.models.Model._FinalEquationFormatting,
               sfc_models.models.Model._CreateFinalEquations, sfc_models.sector.Sector._CreateFinalEquations)
    N = 12 if tier == 'quick' else 16
    cases = [(site, n) for site in SITES for n in range(0, N + 1)]
    from vf import selfcheck
    selfcheck.run_str(chk)      # differential validation of the E2 value class against the plain run (trusted base)
    lb = line_blocks(tier)
    ds = descriptions(tier)
    chk.bounds = {'symbolic comment text': 'every string of every length 0..%d over printable ASCII (32..126) at each of %d sites %r' % (N, len(SITES), sorted(SITES)),
                  'line forms': '%d blocks: %d right-hand sides x %d spacings of "=" x lag notations %r x with/without user time, lines shuffled; plus %d blocks whose stock and lag variables are named from the alphabet of the parser\'s structural tokens (base + up to 2 of 0,1,k,t,_)' % (len(lb), len(RHS), len(EQ_SPACING), LAG_FORMS, len(name_pool(tier))),
                  'descriptions through Model.main()': '%d description / long-name texts composed of <= %d tokens of %r (enumerated, concrete)' % (len(ds), 2 if tier == 'quick' else 3, TOKENS)}
    chk.assumptions = ['no variable is NAMED exactly like the marker word (a line in which the word stands on its own is the section marker, also `Exogenous = ...`, pinned by the test-suite); names that merely contain the word (EXOGENOUS_LEVEL, nonexogenous) are ordinary names and are in the name pool',
                       "a stand-alone comment line that carries the marker word IS the documented section marker (the model itself emits '# Exogenous Variables'): "
                       'for the comment-only site the expected result is the block with the marker in that place',
                       'comment characters are ASCII from TAB (9) to ~ (126), control characters included, except the newline (which ends a comment by definition)']
    chk.outside = ['non-ASCII text', 'descriptions reaching the final text are enumerated, not symbolic (%-formatting realises strings)']
    for st, o in pmap(sym_case, cases):
        if st != 'ok':
            chk.harness_errors.append(o[:800])
            continue
        chk.count('paths', o['paths']); chk.count('forks', o['forks'])
        chk.solver_s += o['solver_s']; chk.queries += o['queries']
        for k, v in o['outcomes'].items():
            chk.count('outcome:' + k, v)
        what = 'comment text of length %d at site %s is inert' % (o['case'][1], o['case'][0])
        if not o['exhaustive'] or o['unknown'] or o['dunknown']:
            chk.ob('unknown', what)
        else:
            chk.ob('sat' if o['viol'] else 'unsat', what, distinct=('sym',) + tuple(o['case']))
        if o['viol']:
            key = 'comment:%s:%s' % (o['case'][0], 'marker-word' if 'exogenous' in o['viol']['comment'].lower() else o['viol']['why'][:40])
            chk.violation(key, what + ': %s (witness %r)' % (o['viol']['why'], o['viol']['comment']), REPLAY_SYM % dict(site=o['case'][0], comment=o['viol']['comment']))
        if o['case'][1] in (0, 9, N):
            chk.sample({'harness': 'E2 ParseString, symbolic comment', 'site': o['case'][0], 'length': o['case'][1], 'paths': o['paths'], 'outcomes': o['outcomes']}, cap=12)
    chk.witness(chk.counters.get('outcome:same', 0) > 0, 'some path parses')
    for fn, items, tmpl, tag, keyf in ((lines_chunk, lb, REPLAY_LINES, 'lines', lambda b: dict(item=(b[0], None))),):
        byt = {t: e for t, e in items}
        for st, r in pmap(fn, [items[i::16] for i in range(16)]):
            if st != 'ok':
                chk.harness_errors.append(r[:800])
                continue
            chk.obligations += r['n']
            chk.discharged += r['n'] - len(r['bad'])
            for text, why in r['bad']:
                chk.violation('lines:%s' % why[:60], 'block %r: %s' % (text, why), REPLAY_LINES % dict(item=(text, byt[text])))
        chk.distinct |= {('lines', i) for i in range(len(items))}
    for st, r in pmap(desc_chunk, [ds[i::16] for i in range(16)]):
        if st != 'ok':
            chk.harness_errors.append(r[:800])
            continue
        chk.obligations += r['n']
        chk.discharged += r['n'] - len({(b[0], b[1]) for b in r['bad']})
        for d, ln, why in r['bad']:
            key = 'description:marker-word' if 'exogenous' in d.lower() else 'description:%r' % (d,)
            chk.violation(key, 'description %r (long name %r): %s' % (d, ln, why[:300]), REPLAY_DESC % dict(d=d))
    chk.distinct |= {('desc', i) for i in range(len(ds))}
    chk.sample({'harness': 'enumerated descriptions through Model.main()', 'count': len(ds), 'examples': ds[1:8]})
    chk.exhaustive = True
    return chk.finish()
