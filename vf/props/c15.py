"""C15 an accepted initial steady state really is steady.
E2: the unmodified EquationSolver.CalculateInitialSteadyState + one further real SolveStep(1) on symbolic values."""
import copy

import z3

from vf import symx
from vf.symx import Driver, SymReal
from vf.common import Check
from vf.par import pmap
import sfc_models.equation_solver as ES
from sfc_models.equation_solver import EquationSolver, NoEquilibriumError
from sfc_models.utils import TimeSeriesHolder

# name -> (text, change map, symbolic k=0 names).  change map: variable -> {stock: c}: after acceptance, one more period changes the
# variable by sum_c c * (stock_ss[T] - stock_ss[T-1]), and each stock's last search step is bounded by the acceptance rule
# applied to that stock; so |v(1)-v(0)| <= sum |c| * lim(stock) is what a correct implementation guarantees.
def _single(a):
    return {'x': {'x': a}, 'LAG_x': {'x': 1.0}}


BLOCKS = {
    'stable':       ("x = 0.5*LAG_x + D\nLAG_x = x(k-1)", _single(0.5), ['x', 'LAG_x']),
    'drifting':     ("x = LAG_x + D\nLAG_x = x(k-1)", _single(1.0), ['x', 'LAG_x']),
    'oscillating':  ("x = -1*LAG_x + D\nLAG_x = x(k-1)", _single(1.0), ['x', 'LAG_x']),
    'damped-osc':   ("x = -0.5*LAG_x + D\nLAG_x = x(k-1)", _single(0.5), ['x', 'LAG_x']),
    'explosive':    ("x = 1.5*LAG_x + D\nLAG_x = x(k-1)", _single(1.5), ['x', 'LAG_x']),
    'two-stocks':   ("x = 0.5*LAG_x + 0.25*LAG_y + D\ny = LAG_y - 0.5*LAG_x + 1\nLAG_x = x(k-1)\nLAG_y = y(k-1)",
                     {'x': {'x': 0.5, 'y': 0.25}, 'y': {'x': 0.5, 'y': 1.0}, 'LAG_x': {'x': 1.0}, 'LAG_y': {'y': 1.0}}, ['x', 'y', 'LAG_x', 'LAG_y']),
    # '@self': c  -- the variable's own last search step is tested by the acceptance rule as well, and one more period changes it by c times that step;
    # a derived variable that is a small difference of large ones (a balance) is bound much tighter by its own test than by the stocks'
    'with-deco':    ("x = 0.5*LAG_x + D\nb = D - x\nLAG_x = x(k-1)", {'x': {'x': 0.5, '@self': 0.5}, 'LAG_x': {'x': 1.0}, 'b': {'x': 0.5, '@self': 0.5}}, ['x', 'LAG_x']),
    # a block whose period is itself solved by iteration (x appears on its own right-hand side): '@iter': (a, main tolerance) -- each reported
    # value lies within E(v, tau) = max(tau*|v|/(1-tau), min(tau, 1e-3))/(1-a) of its period's fixed point (derived from the solver's exit test), so a
    # correct search - one whose periods are solved to the solver's OWN tolerance - may move a stock by the drift of the fixed points plus E at both ends
    'within-period': ("x = 0.25*x + 0.75*(0.5*LAG_x + D)\nLAG_x = x(k-1)\nErr_Tolerance = 1e-4", {'x': {'x': 0.5, '@iter': (0.25, 1e-4)}, 'LAG_x': {'x': 1.0}}, ['x', 'LAG_x']),
    # the same with a slow within-period contraction (0.8), explored near a would-be steady state only: both k=0 values equal, the exogenous level within 10%
    # of the level that would make them steady.  There a search whose periods are solved only to the (looser) steady-state tolerance stops each period after
    # one sweep and accepts a state that the solver's own tolerance then moves by several per cent.
    'within-period-slow': ("x = 0.8*x + 0.2*(0.5*LAG_x + D)\nLAG_x = x(k-1)\nErr_Tolerance = 1e-3", {'x': {'x': 0.5, '@iter': (0.8, 1e-3)}, 'LAG_x': {'x': 1.0}}, ['x', 'LAG_x'],
                           lambda sy, ds: [sy['LAG_x'] == sy['x'], sy['x'] >= 10, ds[0] * 2 >= sy['x'] * symx.rat(0.9), ds[0] * 2 <= sy['x'] * symx.rat(1.1)]),
    # a search that fails WHILE STEPPING (persistent division by zero when the frozen exogenous level is 0): the solver it initialises must be left untouched on that path too
    'failing-search': ("x = 0.5*LAG_x + D\nz = 1/D\nLAG_x = x(k-1)", {'x': {'x': 0.5, '@self': 0.5}, 'LAG_x': {'x': 1.0}}, ['x', 'LAG_x']),
    # the same regime with the simulation's tolerance stated through the solver-level override ParameterErrorTolerance (the block line says 1e-2)
    'within-period-slow-override': ("x = 0.8*x + 0.2*(0.5*LAG_x + D)\nLAG_x = x(k-1)\nErr_Tolerance = 1e-2", {'x': {'x': 0.5, '@iter': (0.8, 1e-3)}, 'LAG_x': {'x': 1.0}}, ['x', 'LAG_x'],
                                    lambda sy, ds: [sy['LAG_x'] == sy['x'], sy['x'] >= 10, ds[0] * 2 >= sy['x'] * symx.rat(0.9), ds[0] * 2 <= sy['x'] * symx.rat(1.1)], {'ParameterErrorTolerance': 1e-3, 'ParameterInitialSteadyStateStepError': 1e-2}),
    # the time step k (an exogenous input of every block: the solver supplies it) appears in an equation: the search runs over k = -T..0 and the accepted
    # state belongs to k = 0; one more period with k frozen at 0 moves the stock by half the last search step
    'time-trend':   ("x = 0.5*LAG_x + D + 10.0*k\nLAG_x = x(k-1)", {'x': {'x': 0.5, '@self': 0.5}, 'LAG_x': {'x': 1.0}}, ['x', 'LAG_x']),
    'time-switch':  ("x = 0.5*LAG_x + D + g\ng = 10.*(k > -1.5)\nLAG_x = x(k-1)", {'x': {'x': 0.5, '@self': 0.5}, 'LAG_x': {'x': 1.0}, 'g': {'@self': 0.0}}, ['x', 'LAG_x']),
    # a block that hovers around zero: a sign-flipping ripple that decays slowly, started inside the near-zero band
    'near-zero-ripple': ("x = -0.95*LAG_x + 0*D\nLAG_x = x(k-1)", {'x': {'x': 0.95}, 'LAG_x': {'x': 1.0}}, ['x', 'LAG_x'],
                         lambda sy, ds: [sy['x'] >= symx.rat(-2e-4), sy['x'] <= symx.rat(2e-4), sy['LAG_x'] >= symx.rat(-2e-4), sy['LAG_x'] <= symx.rat(2e-4)]),
    'deco-balance': ("x = 0.5*LAG_x + D\nbal = 2*D - x\nsav = x - LAG_x\nLAG_x = x(k-1)",
                     {'x': {'x': 0.5, '@self': 0.5}, 'LAG_x': {'x': 1.0}, 'bal': {'x': 0.5, '@self': 0.5}, 'sav': {'x': 0.5, '@self': 0.5}}, ['x', 'LAG_x']),
}


class StubRender(object):
    """TimeSeriesHolder.GenerateCSVtext is replaced by '' while E2 runs (it '%'-formats values for a log line even when
    no log is registered; formatting cannot take a symbolic value and is not the subject here)."""

    def __enter__(self):
        self.old = TimeSeriesHolder.GenerateCSVtext
        TimeSeriesHolder.GenerateCSVtext = lambda self_, format_str='%.5g': ''

    def __exit__(self, *a):
        TimeSeriesHolder.GenerateCSVtext = self.old


def case_run(case):
    name, T, tol = case
    text, gain, k0 = BLOCKS[name][:3]
    full = text + '\nMaxTime = 3'
    D = Driver(timeout_ms=15000, max_paths=20000, max_seconds=BUDGET[0])
    box = 2000
    ds = [z3.Real('D_%d' % i) for i in range(4)]      # a moving exogenous path: the search must freeze it at its k=0 value
    d = ds[0]
    syms = {n: z3.Real(n + '_0') for n in k0}
    for dv in ds:
        D.assume(dv >= -box, dv <= box)
    for v in syms.values():
        D.assume(v >= -box, v <= box)
    if len(BLOCKS[name]) > 3:
        D.assume(*BLOCKS[name][3](syms, ds))
    out = {'case': case, 'viol': None, 'unknown': 0, 'outcomes': {}}
    TOL = symx.rat(tol)

    def path():
        es = EquationSolver(full, run_equation_reduction=True)
        es.ParameterInitialSteadyStateMaxTime = T
        es.ParameterInitialSteadyStateErrorToler = tol
        for attr, val in (BLOCKS[name][4] if len(BLOCKS[name]) > 4 else {}).items():
            setattr(es, attr, val)
        es.Parser.Exogenous.append(('D', [SymReal(dv) for dv in ds]))
        es.ExtractVariableList()
        es.SetInitialConditions()
        for n in k0:
            es.TimeSeries[n][0] = SymReal(syms[n])
        before = (es.EquationString, copy.deepcopy(es.Parser.Endogenous), copy.deepcopy(es.Parser.Lagged), copy.deepcopy(es.Parser.Decoration),
                  list(es.Parser.InitialConditions.items()), es.Parser.MaxTime, es.MaxIterations, es.Parser.Err_Tolerance, len(es.Parser.Exogenous))
        try:
            es.CalculateInitialSteadyState()
        except NoEquilibriumError:
            o = 'NoEquilibriumError'
        except ValueError:
            o = 'ValueError'
        else:
            o = 'accepted'
        out['outcomes'][o] = out['outcomes'].get(o, 0) + 1
        after = (es.EquationString, es.Parser.Endogenous, es.Parser.Lagged, es.Parser.Decoration, list(es.Parser.InitialConditions.items()),
                 es.Parser.MaxTime, es.MaxIterations, es.Parser.Err_Tolerance, len(es.Parser.Exogenous))
        if before != after and out['viol'] is None:
            r, m = D.holds(z3.BoolVal(False))      # any values of this path
            vals = {n: str(m.eval(v, model_completion=True)) for n, v in syms.items()} if m is not None else {n: '1' for n in syms}
            for i, dv in enumerate(ds):
                vals['D_%d' % i] = str(m.eval(dv, model_completion=True)) if m is not None else '1'
            changed = [nm for nm, x, y in zip(('equation text', 'simultaneous equations', 'lagged', 'decorative', 'initial conditions', 'horizon', 'iteration cap',
                                               'tolerance', 'number of exogenous series'), before, after) if x != y]
            out['viol'] = {'why': 'the search (outcome %s) changed the solver it initialises: %s' % (o, ', '.join(changed)), 'vals': vals}
        exo_ok = [symx.lift(v) == dv for v, dv in zip(es.TimeSeries['D'], ds)] + [z3.BoolVal(len(es.TimeSeries['D']) == 4)]
        r, m = D.holds(z3.And(exo_ok))
        if r == 'sat' and out['viol'] is None:
            vals = {n: str(m.eval(v, model_completion=True)) for n, v in syms.items()}
            for i, dv in enumerate(ds):
                vals['D_%d' % i] = str(m.eval(dv, model_completion=True))
            out['viol'] = {'why': 'the search changed the exogenous path of the initialised solver', 'vals': vals}
        if o != 'accepted':
            return o
        x0 = {v: symx.lift(es.TimeSeries[v][0]) for v in es.TimeSeries if v not in ('k', 't')}
        # one more period with the exogenous inputs frozen at their k=0 values (as the property states)
        es.TimeSeries['D'] = [es.TimeSeries['D'][0]] * 4
        es.TimeSeries['k'] = [es.TimeSeries['k'][0]] * len(es.TimeSeries['k'])       # the time step is an exogenous input too
        try:
            es.SolveStep(1)
        except ValueError:
            return 'accepted-then-step-fails'
        props = []

        def zabs(e):
            return z3.If(e >= 0, e, -e)

        # the property, literally: no non-excluded variable moves by more than the tolerance - relative to its value, or absolutely; two values that are
        # both near zero (< 1e-4, the documented rule) count as equal.  The relative bound is taken on the larger of the two magnitudes and 1e-9 is added
        # for the last binary digit of the tolerance literal: anything a correct implementation accepts satisfies this.
        NEAR = symx.rat(1e-4)
        for v, a in x0.items():
            b = symx.lift(es.TimeSeries[v][1])
            diff = zabs(b - a)
            big = z3.If(zabs(a) >= zabs(b), zabs(a), zabs(b))
            rel = TOL * big
            lim = z3.If(rel >= TOL, rel, TOL)
            # near zero (< 1e-4) only the absolute bound applies - two small values are not "equal" just because they are small
            props.append(z3.If(z3.And(zabs(a) < NEAR, zabs(b) < NEAR), diff <= TOL * (1 + symx.rat(1e-9)), diff <= lim * (1 + symx.rat(1e-9))))
        r, m = D.holds(z3.And(props))
        if r == 'sat' and out['viol'] is None:
            vals = {n: str(m.eval(v, model_completion=True)) for n, v in syms.items()}
            for i, dv in enumerate(ds):
                vals['D_%d' % i] = str(m.eval(dv, model_completion=True))
            out['viol'] = {'why': 'accepted as steady, but one more period moves a variable by more than the tolerance', 'vals': vals}
        elif r == 'unknown':
            out['unknown'] += 1
        return o
    with StubRender():
        D.run_all(path)
    out.update(paths=D.paths, forks=D.forks, queries=D.queries, solver_s=D.solver_s, exhaustive=D.exhaustive, dunknown=D.unknown)
    return out


BUDGET = [90]


def cases(tier):
    out = []
    for name in BLOCKS:
        for T in ((2, 3) if tier == 'quick' else (2, 3, 4)):
            for tol in (1e-4, 1e-2):
                if name in ('two-stocks',) and tier == 'quick':
                    continue       # coupled stocks: nonlinear relative-error terms make some feasibility queries slow (thorough tier)
                if name.startswith('within-period') and (T, tol) != (2, 1e-2) and (tier == 'quick' or name.endswith('slow')):
                    continue       # every sweep of an iterated period forks: one (horizon, tolerance) pair in the quick tier
                out.append((name, T, tol))
    return out


REPLAY = '''
import sys
from fractions import Fraction as F
from sfc_models.equation_solver import EquationSolver, NoEquilibriumError
from vf.props.c15 import BLOCKS
name, T, tol = %(case)r
vals = {k: float(F(v)) for k, v in %(vals)r.items()}
text, gain, k0 = BLOCKS[name][:3]
es = EquationSolver(text + '\\nMaxTime = 3', run_equation_reduction=True)
es.ParameterInitialSteadyStateMaxTime = T; es.ParameterInitialSteadyStateErrorToler = tol
for attr, val in (BLOCKS[name][4] if len(BLOCKS[name]) > 4 else {}).items(): setattr(es, attr, val)
path = [vals['D_%%d' %% i] for i in range(4)]
es.Parser.Exogenous.append(('D', list(path)))
es.ExtractVariableList(); es.SetInitialConditions()
for n in k0: es.TimeSeries[n][0] = vals[n]
import copy
snap = lambda: (es.EquationString, copy.deepcopy(es.Parser.Endogenous), copy.deepcopy(es.Parser.Lagged), copy.deepcopy(es.Parser.Decoration),
                list(es.Parser.InitialConditions.items()), es.Parser.MaxTime, es.MaxIterations, es.Parser.Err_Tolerance, len(es.Parser.Exogenous))
before = snap()
try:
    es.CalculateInitialSteadyState()
except ValueError as e:
    print('search refused:', repr(e))
    if snap() != before:
        print('... and left the solver changed:', before[5:], '->', snap()[5:]); sys.exit(1)
    sys.exit(0)
bad = False
if snap() != before:
    print('the search changed the solver it initialises:', before[5:], '->', snap()[5:]); bad = True
if list(es.TimeSeries['D']) != path:
    print('the search changed the exogenous path:', es.TimeSeries['D'], 'was', path); bad = True
x0 = {v: es.TimeSeries[v][0] for v in es.TimeSeries if v not in ('k', 't')}
es.TimeSeries['D'] = [path[0]] * 4
es.TimeSeries['k'] = [es.TimeSeries['k'][0]] * len(es.TimeSeries['k'])
es.SolveStep(1)
for v, a in x0.items():
    b = es.TimeSeries[v][1]
    lim = max(tol * max(abs(a), abs(b)), tol) * (1 + 1e-9)
    near = abs(a) < 1e-4 and abs(b) < 1e-4
    print(v, 'installed k=0 value', a, 'next period', b, 'allowed change', lim, '(both near zero)' if near else '')
    if abs(b - a) > (tol * (1 + 1e-9) if near else lim) * (1 + 1e-12): bad = True
sys.exit(1 if bad else 0)
'''


def run(tier, seed):
    chk = Check('C15', tier, 'model_checking', seed)
    chk.encode(EquationSolver.CalculateInitialSteadyState, EquationSolver._GetCopy, EquationSolver.SolveStep, EquationSolver._SolveStep)
    BUDGET[0] = 90 if tier == 'quick' else 600
    from vf import selfcheck
    selfcheck.run(chk)      # differential validation of the E2 value classes (trusted base) against plain floats
    cs = cases(tier)
    chk.bounds = {'cases': '%d: blocks %r x search horizon x tolerance {1e-4, 1e-2}' % (len(cs), sorted(BLOCKS)),
                  'numeric domain': 'k=0 values of every stock/lag and a MOVING exogenous path (4 symbolic values) in [-2000, 2000], both signs',
                  'post': 'on acceptance |v(1)-v(0)| <= max(tol*max(|v(0)|,|v(1)|), tol) for every non-excluded variable, or both values below 1e-4 in magnitude (the property, literally); otherwise NoEquilibriumError/ValueError; '
                          'equations, parser lists, exogenous series, horizon and solver attributes unchanged'}
    chk.assumptions = ['the bound is the documented acceptance rule itself (absolute tolerance, relative tolerance on the larger magnitude, both-near-zero rule): no allowance for the block`s one-step gain', 'TimeSeriesHolder.GenerateCSVtext stubbed to "" during E2 runs (log rendering, not the subject)']
    chk.outside = ['search horizons above 4 (default 200)', 'non-affine systems']
    for st, o in pmap(case_run, cs):
        if st != 'ok':
            chk.harness_errors.append(o[:800])
            continue
        chk.count('paths', o['paths'])
        chk.count('forks', o['forks'])
        chk.solver_s += o['solver_s']
        chk.queries += o['queries']
        for k, v in o['outcomes'].items():
            chk.count('outcome:' + k, v)
        what = 'steady-state search block=%s horizon=%d tol=%g' % o['case']
        if not o['exhaustive'] or o['unknown'] or o['dunknown']:
            chk.ob('unknown', what + ' (paths %d unknown %d)' % (o['paths'], o['unknown'] + o['dunknown']))
        else:
            chk.ob('sat' if o['viol'] else 'unsat', what, distinct=tuple(o['case']))
        if o['viol']:
            if o['viol']['vals'] is None:
                chk.harness_errors.append(what + ': ' + o['viol']['why'])
            else:
                kind = 'search-changed-the-solver' if 'changed the solver' in o['viol']['why'] else ('exogenous-path-changed' if 'exogenous path' in o['viol']['why'] else 'accepted-not-steady')
                chk.violation('%s:%s' % (kind, o['case'][0]), what + ': ' + o['viol']['why'] + ' at %r' % (o['viol']['vals'],),
                              REPLAY % dict(case=o['case'], vals=o['viol']['vals']))
        chk.sample({'harness': what, 'paths': o['paths'], 'forks': o['forks'], 'outcomes': o['outcomes'], 'exhaustive': o['exhaustive']}, cap=14)
    chk.witness(chk.counters.get('outcome:accepted', 0) > 0, 'some path accepts a steady state')
    chk.witness(chk.counters.get('outcome:NoEquilibriumError', 0) > 0, 'some path rejects')
    chk.exhaustive = True
    return chk.finish()
