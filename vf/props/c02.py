"""C02 whatever the solver returns satisfies the submitted equations.
E2: the unmodified EquationSolver._SolveStep / SolveStep / SolveEquation run on symbolic values.
  Real mode  : residual post-conditions on every normally-returning path (exact reals).
  FP mode    : IEEE binary64 (blind forks, one QF_FP query per path): no non-finite value is ever reported as solved.
"""
import z3

from vf import symx
from vf.symx import Driver, SymReal, SymFP, SymBool
from vf.common import Check
from vf.eqsmt import to_z3
from vf.par import pmap
import sfc_models.equation_solver as ES
from sfc_models.equation_solver import EquationSolver, ConvergenceError
import sfc_models.equation_parser

# ---- block grammar (Real mode) -------------------------------------------------------------------------------------
# name -> (text, simultaneous equations {var: {var: coef}}, symbolic k=0 names, exogenous names, functions)
BLOCKS = {
    'one-affine':      ("x = 0.5*x + G", {'x': {'x': 0.5}}, ['x'], ['G'], {}),
    'one-negative':    ("x = -0.5*x + G", {'x': {'x': -0.5}}, ['x'], ['G'], {}),
    'two-coupled':     ("x = 0.5*y + G\ny = 0.25*x + 1", {'x': {'y': 0.5}, 'y': {'x': 0.25}}, ['x', 'y'], ['G'], {}),
    'two-oscillating': ("x = -0.8*y + G\ny = 0.5*x - 2", {'x': {'y': -0.8}, 'y': {'x': 0.5}}, ['x', 'y'], ['G'], {}),
    'lagged':          ("x = 0.25*x + 0.5*LX + G\nLX = x(k-1)", {'x': {'x': 0.25}}, ['x'], ['G'], {}),
    'deco-tree':       ("x = 0.5*x + G\nd1 = 2*x + G\nd2 = d1 - x\nd3 = d2*d1", {'x': {'x': 0.5}}, ['x'], ['G'], {}),
    # aliases written target-first: the reducer sets the dependents (s = p, v = 0.5*p + 1) aside BEFORE the alias p they depend on,
    # so the decorative pass has to defer them within the step
    'deco-dependent-first': ("x = 0.5*x + G\np = x\na = p\ns = a\nv = 0.5*a + 1", {'x': {'x': 0.5}}, ['x'], ['G'], {}),
    'alias-chain':     ("x = 0.5*y + G\ny = z\nz = w\nw = 0.5*x + 1", {'x': {'w': 0.5}, 'w': {'x': 0.5}}, ['x', 'y', 'z', 'w'], ['G'], {}),
    'user-function':   ("x = 0.25*fn(x) + G\nd = fn(x)", {'x': {'x': 0.5}}, ['x'], ['G'], {'fn': lambda v: 2 * v + 1}),
    # a user function registered under the name of a function the solver module imports from math: the equations mean the user's function
    'user-function-math-name': ("x = 0.25*sqrt(x) + G\nd = sqrt(x)", {'x': {'x': 0.5}}, ['x'], ['G'], {'sqrt': lambda v: 2 * v + 1}),
    # a sign-flipped identity (d = -x) whose left-hand side is the base of a power and a factor elsewhere: whatever the reducer does with d, the reported
    # values have to satisfy the submitted equations
    'negated-alias':   ("x = 0.5*x + G\nd = -x\nw = 3 + d**2 - 0.5*d\nv = 2*d*d - d/4", {'x': {'x': 0.5}}, ['x'], ['G'], {}),
    'division-first':  ("x = 1/Y + 0*y\ny = 0.5*y + G", {'x': {}, 'y': {'y': 0.5}}, ['x', 'y'], ['G', 'Y'], {}),
    'division-middle': ("a = 0.5*a + 1 + 0*x\nx = 2/Y + 0*y\ny = 0.25*y + G + 0*a", {'a': {}, 'x': {}, 'y': {}}, ['a', 'x', 'y'], ['G', 'Y'], {}),
    # two independent contractions of very different size in one block, the large one listed first: the small one has to be as converged as alone
    'two-scales':      ("W = 0.5*W + 40*G\nu = -0.5*u + 1", {'W': {'W': 0.5}, 'u': {'u': -0.5}}, ['W', 'u'], ['G'], {}),
    'three-coupled':   ("x = 0.5*y + G\ny = 0.25*x + 0.3*z + 1\nz = 0.2*x - 0.4*y + G",
                        {'x': {'y': 0.5}, 'y': {'x': 0.25, 'z': 0.3}, 'z': {'x': 0.2, 'y': -0.4}}, ['x', 'y', 'z'], ['G'], {}),
}


# exogenous inputs used as divisors: a period in which one is zero cannot be solved (the equation cannot hold)
DIVISORS = {'division-first': ['Y'], 'division-middle': ['Y']}


def neighbour_solver(name, maxtime):
    """Another solver in the same process: the same variable names and functions as the block under test, every numeric literal shifted by 1/8,
    concrete exogenous paths.  It is parsed and solved while the solver under test is between its set-up and its periods."""
    import re
    text, A, k0, exo, funcs = BLOCKS[name]
    shifted = re.sub(r'(?<![A-Za-z_0-9.])(?<!k-)(\d+\.?\d*)', lambda m: repr(float(m.group(1)) + 0.125), text)
    full = shifted + '\nErr_Tolerance = 0.001\nMaxTime = %d\nexogenous\n' % maxtime + '\n'.join('%s = [2.0,]*%d' % (n, maxtime + 1) for n in exo)
    o = EquationSolver(full, run_equation_reduction=True)
    for fname, fobj in funcs.items():
        o.AddFunction(fname, lambda v, fobj=fobj: fobj(v) + 3.0)      # same name, different meaning
    try:
        o.SolveEquation()
    except ValueError:
        pass
    return o


def norm_inf(A):
    return max(sum(abs(c) for c in row.values()) for row in A.values())


def real_case(case):
    import time as _t
    _t0 = _t.time()
    name, tol, cap, reduce, maxtime = case[:5]
    neighbour = case[5] if len(case) > 5 else None
    text, A, k0, exo, funcs = BLOCKS[name]
    full = text + '\nErr_Tolerance = %r\nMaxTime = %d' % (tol, maxtime)
    if neighbour == 'tolerance-set-later':
        # the block states a loose tolerance; the tolerance in force (tol) is set on the solver object AFTER the block was parsed (constructor form)
        full = text + '\nErr_Tolerance = 0.25\nMaxTime = %d' % (maxtime,)
    D = Driver(timeout_ms=15000, max_paths=60000, max_seconds=BUDGET[0])
    box = 100
    syms = {}
    for n in k0:
        syms[n + '@0'] = z3.Real(n + '_0')
    for n in exo:
        for k in range(1, maxtime + 1):
            syms['%s@%d' % (n, k)] = z3.Real('%s_%d' % (n, k))
    for v in syms.values():
        D.assume(v >= -box, v <= box)
    out = {'case': case, 'viol': None, 'unknown': 0, 'outcomes': {}}
    # classification and gain are read off the real parser's partition for this reduction setting: everything it iterates on
    # is "simultaneously determined" (residual bound with the block's own gain), everything else must hold exactly
    probe = EquationSolver(full, run_equation_reduction=reduce)
    simultaneous = [v for v, _ in probe.Parser.Endogenous]
    zf = {f: (lambda *a, f=f: symx.lift(funcs[f](*[SymReal(x) for x in a]))) for f in funcs}
    nA = 0
    rows = {}
    for v, eqn in probe.Parser.Endogenous:
        env0 = {nm: z3.Real('q_' + nm) for nm in set(simultaneous) | set(exo) | {l for l, _ in probe.Parser.Lagged} | {'k'}}
        base = to_z3(eqn, env0, zf)
        row = 0
        for w in simultaneous:
            d = z3.simplify(z3.substitute(base, (env0[w], env0[w] + 1)) - base)
            from vf.eqsmt import val_fraction
            row += abs(val_fraction(d))
            rows.setdefault(v, {})[w] = abs(val_fraction(d))
        nA = max(nA, row)
    n = max(len(simultaneous), 1)
    TOL = symx.rat(tol)
    factor = n * TOL / (1 - TOL)
    out['gain'] = float(nA)

    def path():
        es = EquationSolver(full, run_equation_reduction=reduce)
        es.MaxIterations = cap
        if neighbour == 'tolerance-set-later':
            es.ParameterErrorTolerance = tol
        for fname, fobj in funcs.items():
            es.AddFunction(fname, fobj)
        for nme in exo:
            es.Parser.Exogenous.append((nme, [0.0] + [SymReal(syms['%s@%d' % (nme, k)]) for k in range(1, maxtime + 1)]))
        es.ExtractVariableList()
        es.SetInitialConditions()
        for nme in k0:
            es.TimeSeries[nme][0] = SymReal(syms[nme + '@0'])
        try:
            for step in range(1, maxtime + 1):
                if neighbour == 'neighbour':
                    neighbour_solver(name, maxtime)
                if neighbour == 'trace':
                    es.TraceStep = maxtime            # convergence tracing of the last period (a diagnostic: must not change any value)
                es.SolveStep(step)
        except ConvergenceError:
            o = 'ConvergenceError'
        except ValueError:
            o = 'ValueError'
        except ZeroDivisionError:
            o = 'ZeroDivisionError'
        else:
            o = 'solved'
        out['outcomes'][o] = out['outcomes'].get(o, 0) + 1
        if o != 'solved':
            return o
        ts = es.TimeSeries
        L = symx.lift
        orig = sfc_models.equation_parser.EquationParser()
        orig.ParseString(full)
        props = []
        for k in range(1, maxtime + 1):
            env = {v: L(ts[v][k]) for v in ts}
            fenv = {f: (lambda *a, f=f: L(funcs[f](*[SymReal(x) for x in a]))) for f in funcs}
            # per equation: the exit test bounds the last move of every variable w by tol/(1-tol) * max(1, |w|); the residual of the equation of v is its own
            # (possibly damped) move plus the moves of the variables it reads, weighted by its own coefficients - the magnitudes of the values THIS equation
            # involves, not the largest value anywhere in the block (a small variable listed after a large one must be as converged as alone)
            mag = {}
            for v in simultaneous:
                a = env[v]
                ab = z3.If(a >= 0, a, -a)
                mag[v] = z3.If(ab > 1, ab, z3.RealVal(1))
            for v, eqn in orig.Endogenous:
                if v == 't':
                    props.append(env['t'] == k)
                    continue
                r = env[v] - to_z3(eqn, env, fenv)
                if v in simultaneous:
                    scale = mag[v] + sum(z3.RealVal(str(c)) * mag[w] for w, c in rows.get(v, {}).items() if c != 0)
                    props.append(z3.If(r >= 0, r, -r) <= factor * scale)
                else:
                    props.append(r == 0)          # derived-only / alias variables: exactly
            for v, src in orig.Lagged:
                props.append(env[v] == L(ts[src.strip()][k - 1]))
            for nme in exo:
                props.append(env[nme] == syms['%s@%d' % (nme, k)])
        for dn in DIVISORS.get(name, []):
            for k in range(1, maxtime + 1):
                props.append(syms['%s@%d' % (dn, k)] != 0)        # reported as solved => every divisor was non-zero
        r, m = D.holds(z3.And(props))
        if r == 'sat' and out['viol'] is None:
            out['viol'] = {'why': 'an equation of the submitted block does not hold at the reported values',
                           'vals': {kk: str(m.eval(v, model_completion=True)) for kk, v in syms.items()}}
        elif r == 'unknown':
            out['unknown'] += 1
        return o
    from vf.props.c15 import StubRender
    with StubRender():
        D.run_all(path)
    out.update(paths=D.paths, forks=D.forks, queries=D.queries, solver_s=D.solver_s, exhaustive=D.exhaustive, dunknown=D.unknown, wall=_t.time() - _t0, cut_paths=getattr(D, 'cut_paths', 0))
    return out


BUDGET = [60]


def real_cases(tier):
    out = []
    for name in BLOCKS:
        probe = EquationSolver(BLOCKS[name][0], run_equation_reduction=False)
        n = len([v for v, _ in probe.Parser.Endogenous if v != 't'])
        for reduce in (False, True):
            if not reduce and name in ('deco-tree', 'negated-alias'):
                continue      # their product / power equations are simultaneous when unreduced: the affine residual bound does not apply
            if not reduce and name == 'alias-chain' and tier == 'quick':
                continue
            if tier == 'quick':
                if n == 1:
                    combos = [(1e-2, 2), (1e-2, 12), (1e-6, 4)]
                elif n == 2:
                    combos = [(1e-2, 2), (1e-2, 3)]
                elif n <= 4 and name not in ('three-coupled',):
                    combos = [(1e-2, 2)] if not reduce else [(1e-2, 3)]
                else:
                    combos = []
            else:
                if n == 1:
                    combos = [(t, c) for t in (1e-2, 1e-6) for c in (2, 3, 4, 12, 30)]
                elif n == 2:
                    combos = [(t, c) for t in (1e-2, 1e-6) for c in (2, 3, 4)] + [(1e-2, 12)]
                else:
                    combos = [(1e-2, 2), (1e-2, 3), (1e-6, 3)]
            for tol, cap in combos:
                out.append((name, tol, cap, reduce, 1))
        if tier == 'thorough' and n == 1:
            out.append((name, 1e-2, 4, True, 2))
            out.append((name, 1e-2, 4, False, 2))
    if tier == 'quick':
        out.append(('one-affine', 1e-2, 3, True, 2))
        # enough sweeps for the damped phase of the iteration (after the 10th sweep) with derived variables to compute afterwards
        out.append(('deco-tree', 1e-6, 30, True, 1))
    # the same solve with another solver (same names, other coefficients) parsed and solved before every period
    for name in BLOCKS:
        if tier == 'quick' and name in ('three-coupled', 'two-oscillating', 'division-middle'):
            continue
        out.append((name, 1e-2, 2, True, 2 if name in ('one-affine', 'lagged') else 1, 'neighbour'))
        if tier == 'thorough':
            out.append((name, 1e-2, 3, False if name not in ('deco-tree', 'negated-alias') else True, 1, 'neighbour'))
    # the tolerance in force set on the solver object after the block (which states a looser one) was parsed
    for name in ('one-affine', 'lagged', 'two-coupled'):
        out.append((name, 1e-2, 4 if name != 'two-coupled' else 3, True, 1, 'tolerance-set-later'))
    # the same solve with step tracing switched on for the last of two periods (the exogenous value moves between them)
    for name in ('deco-dependent-first', 'deco-tree', 'lagged') + (('alias-chain', 'two-coupled', 'user-function') if tier == 'thorough' else ()):
        out.append((name, 1e-2, 2, True, 2, 'trace'))
    return out


REPLAY_REAL = '''
import sys
from fractions import Fraction as F
from sfc_models.equation_solver import EquationSolver
from sfc_models.equation_parser import EquationParser
from vf.props.c02 import BLOCKS, norm_inf, neighbour_solver
case = %(case)r
name, tol, cap, reduce, maxtime = case[:5]
neighbour = case[5] if len(case) > 5 else None
vals = {k: float(F(v)) for k, v in %(vals)r.items()}
text, A, k0, exo, funcs = BLOCKS[name]
full = text + '\\nErr_Tolerance = %%r\\nMaxTime = %%d' %% (tol, maxtime)
if neighbour == 'tolerance-set-later': full = text + '\\nErr_Tolerance = 0.25\\nMaxTime = %%d' %% (maxtime,)
es = EquationSolver(full, run_equation_reduction=reduce); es.MaxIterations = cap
if neighbour == 'tolerance-set-later': es.ParameterErrorTolerance = tol
for f, o in funcs.items(): es.AddFunction(f, o)
for n in exo: es.Parser.Exogenous.append((n, [0.0] + [vals['%%s@%%d' %% (n, k)] for k in range(1, maxtime + 1)]))
es.ExtractVariableList(); es.SetInitialConditions()
for n in k0: es.TimeSeries[n][0] = vals[n + '@0']
try:
    for step in range(1, maxtime + 1):
        if neighbour == 'neighbour': neighbour_solver(name, maxtime)
        if neighbour == 'trace': es.TraceStep = maxtime
        es.SolveStep(step)
except ValueError as e:
    print('raised', repr(e)); sys.exit(0)
ts = es.TimeSeries
print({v: ts[v] for v in ts})
orig = EquationParser(); orig.ParseString(full)
probe = EquationSolver(full, run_equation_reduction=reduce)
sim = [v for v, _ in probe.Parser.Endogenous]
names = set(sim) | set(exo) | {l for l, _ in probe.Parser.Lagged} | {'k'}
rows = {}
for v, eqn in probe.Parser.Endogenous:
    z = {n: 1.0 for n in names}; z.update(funcs)      # finite differences around 1 (the equations are affine in the simultaneous variables; divisors are exogenous)
    base = eval(eqn, {}, z)
    for w in sim:
        z1 = dict(z); z1[w] = 2.0
        rows.setdefault(v, {})[w] = abs(eval(eqn, {}, z1) - base)
bound = max(len(sim), 1) * tol / (1 - tol)
bad = False
for k in range(1, maxtime + 1):
    env = {v: ts[v][k] for v in ts}; env.update(funcs)
    mag = {v: max(1.0, abs(env[v])) for v in sim}
    for v, eqn in orig.Endogenous:
        if v == 't': continue
        scale = (mag[v] + sum(c * mag[w] for w, c in rows.get(v, {}).items())) if v in sim else 1.0      # the magnitudes of the values this equation involves
        try:
            r = abs(env[v] - eval(eqn, {}, env))
        except ZeroDivisionError:
            print('period', k, v, '=', env[v], 'reported although', eqn, 'cannot be evaluated (division by zero)'); bad = True; continue
        lim = bound * scale * (1 + 1e-9) + 1e-12 if v in sim else 1e-15 * (1 + abs(env[v]))      # derived variables: the same float expression re-evaluated, equal to the last bits
        if r > lim: print('period', k, v, 'residual', r, 'limit', lim); bad = True
    for v, src in orig.Lagged:
        if env[v] != ts[src.strip()][k - 1]: print('lag', v); bad = True
sys.exit(1 if bad else 0)
'''

# ---- a stated exogenous path that is not finite in some period k >= 1 (concrete: the value comes from a float literal that overflows) -------------------

NONFINITE_USES = {
    'unused':       "x = 0.5*x + 1.\nexogenous\nG = %s\nMaxTime = 3",
    'lagged-only':  "x = 0.5*x + 1.\nLAG_G = G(k-1)\nexogenous\nG = %s\nMaxTime = 3",
    'simultaneous': "x = 0.5*x + G\nexogenous\nG = %s\nMaxTime = 3",
    'decorative':   "x = 0.5*x + 1.\nd = 2*G\nexogenous\nG = %s\nMaxTime = 3",
    'beyond-horizon': "x = 0.5*x + G\nexogenous\nG = [1., 1., 1., 1., %s]\nMaxTime = 3",      # never part of the results: must solve
}
NONFINITE_VALUES = ('1e400', '-1e400', '1e400 - 1e400')


def nonfinite_exogenous_outcomes():
    """'every reported value is a finite number': an exogenous path whose value in a period k >= 1 is inf / -inf / NaN - used by nothing, by a lag only, by a
    simultaneous or by a decorative equation - must not come back as a solved series holding that value (refused, or solved with finite values only)."""
    out = []
    for use, text in sorted(NONFINITE_USES.items()):
        for val in NONFINITE_VALUES:
            for pos in ((1, 3) if use != 'beyond-horizon' else (4,)):
                path = val if use == 'beyond-horizon' else '[' + ', '.join(val if i == pos else '1.' for i in range(4)) + ']'
                for reduce in (True, False):
                    es = EquationSolver(text % path, run_equation_reduction=reduce)
                    try:
                        es.SolveEquation()
                    except ValueError as e:
                        outcome = 'refused'
                    except Exception as e:
                        outcome = 'crash:' + type(e).__name__
                    else:
                        bad = sorted(v for v in es.TimeSeries for x in es.TimeSeries[v] if isinstance(x, float) and (x != x or abs(x) == float('inf')))
                        outcome = 'solved' if not bad else 'solved with non-finite values in %s' % (sorted(set(bad)),)
                    ok = outcome == 'solved' if use == 'beyond-horizon' else outcome in ('refused', 'solved')
                    out.append((use, val, pos, reduce, outcome, ok))
    return out


REPLAY_NONFINITE = '''
import sys
from vf.props.c02 import nonfinite_exogenous_outcomes
bad = [r for r in nonfinite_exogenous_outcomes() if r[0] == %(use)r and not r[5]]
for r in bad: print('exogenous path with %%s in period %%d (%%s, reduction %%s): %%s' %% (r[1], r[2], r[0], r[3], r[4]))
sys.exit(1 if bad else 0)
'''


# ---- FP mode: non-finite values are never reported as solved ----------------------------------------------------------

FP_BLOCKS = {
    'square-plus-c': ("x = x*x + C", ['x'], ['C']),
    'affine-symbolic-gain': ("x = A*x + C", ['x'], ['A', 'C']),
    'two-product': ("x = x*y + C\ny = 0.5*y + 1", ['x', 'y'], ['C']),
    'overflowing-deco': ("x = 0.5*x + C\nd = x*C", ['x'], ['C']),
}


def sym_max(*args):
    if not any(isinstance(a, SymFP) for a in args):
        return max(*args)
    out = SymFP.lift(args[0])
    for b in args[1:]:
        b = SymFP.lift(b)
        out = z3.If(z3.fpGT(b, out), b, out)
    return SymFP(out)


def fp_case(case):
    import time as _t
    _t0 = _t.time()
    """Blind forks; each complete, normally-returning path gives one query: path /\\ (isNaN \\/ isInf)(some reported value)."""
    name, cap, bits = case
    text, k0, exo = FP_BLOCKS[name]
    full = text + '\nErr_Tolerance = 1e-6\nMaxTime = 1'
    SymFP.sort = symx.fpsort(bits)
    D = Driver(mode='blind', max_paths=20000, max_seconds=BUDGET[0] * 3, max_depth=40)
    syms = {n: z3.FP(n, SymFP.sort) for n in [x + '_0' for x in k0] + exo}
    finite_inputs = [z3.Not(z3.fpIsNaN(v)) for v in syms.values()] + [z3.Not(z3.fpIsInf(v)) for v in syms.values()]
    out = {'case': case, 'viol': None, 'unknown': 0, 'outcomes': {}, 'queries': 0, 'solver_s': 0.0, 'sat_paths': 0, 'smt2': [],
           'names': sorted(syms)}
    old_max = ES.__dict__.get('max')
    ES.max = sym_max
    try:
        def path():
            es = EquationSolver(full, run_equation_reduction=False)
            es.MaxIterations = cap
            for n in exo:
                es.Parser.Exogenous.append((n, [0.0, SymFP(syms[n])]))
            es.ExtractVariableList()
            es.SetInitialConditions()
            for n in k0:
                es.TimeSeries[n][0] = SymFP(syms[n + '_0'])
            try:
                es._SolveStep(1, False)
            except ConvergenceError:
                o = 'ConvergenceError'
            except ValueError:
                o = 'ValueError'
            except ZeroDivisionError:
                o = 'ZeroDivisionError'
            else:
                o = 'solved'
            out['outcomes'][o] = out['outcomes'].get(o, 0) + 1
            if o != 'solved':
                return o
            reported = [es.TimeSeries[v][1] for v in es.TimeSeries if len(es.TimeSeries[v]) > 1 and isinstance(es.TimeSeries[v][1], SymFP)]
            nonfinite = z3.Or([z3.Or(z3.fpIsNaN(r.e), z3.fpIsInf(r.e)) for r in reported])
            q = z3.Solver()
            q.add(D.path_condition() + finite_inputs + [nonfinite])
            out['smt2'].append(q.to_smt2())
            return o
        D.run_all(path)
    finally:
        if old_max is None:
            del ES.max
        else:
            ES.max = old_max
    out.update(paths=D.paths, forks=D.forks, exhaustive=D.exhaustive, wall=_t.time() - _t0)
    return out


FP_TIMEOUT = [120000]


def fp_query_job(job):
    """One non-incremental QF_FP query (own process): path condition /\\ finite inputs /\\ some reported value non-finite."""
    ci, smt2, names, bits = job
    import time as _t
    s = z3.SolverFor('QF_FP')
    s.set('timeout', FP_TIMEOUT[0])
    s.add(z3.parse_smt2_string(smt2))
    t0 = _t.time()
    r = s.check()
    dt = _t.time() - t0
    vals = None
    if r == z3.sat:
        m = s.model()
        vals = {}
        for d in m.decls():
            if d.name() in names:
                vals[d.name()] = symx._fp_to_float(m[d])
        for n in names:
            vals.setdefault(n, 1.0)
    return ci, str(r), vals, dt


def fp_cases(tier):
    out = []
    for name in FP_BLOCKS:
        for cap in ((1,) if tier == 'quick' else (1, 2)):
            if name == 'two-product' and (cap > 1 or tier == 'quick'):
                continue
            out.append((name, cap, 64))
    return out


REPLAY_FP = '''
import sys, math
from sfc_models.equation_solver import EquationSolver
from vf.props.c02 import FP_BLOCKS
name, cap, bits = %(case)r
vals = %(vals)r
text, k0, exo = FP_BLOCKS[name]
es = EquationSolver(text + '\\nErr_Tolerance = 1e-6\\nMaxTime = 1', run_equation_reduction=False); es.MaxIterations = cap
for n in exo: es.Parser.Exogenous.append((n, [0.0, vals[n]]))
es.ExtractVariableList(); es.SetInitialConditions()
for n in k0: es.TimeSeries[n][0] = vals[n + '_0']
try:
    es.SolveStep(1)
except ValueError as e:
    print('raised', repr(e)); sys.exit(0)
ts = es.TimeSeries
print('reported as solved:', {v: ts[v] for v in ts})
bad = any(not math.isfinite(ts[v][1]) for v in ts)
sys.exit(1 if bad else 0)
'''


def run(tier, seed):
    chk = Check('C02', tier, 'model_checking', seed)
    chk.encode(EquationSolver._SolveStep, EquationSolver.SolveStep, EquationSolver.SetInitialConditions,
               EquationSolver.ExtractVariableList, sfc_models.equation_parser.EquationParser.EquationReduction)
    BUDGET[0] = 110 if tier == 'quick' else 400
    FP_TIMEOUT[0] = 120000 if tier == 'quick' else 300000
    from vf import selfcheck
    selfcheck.run(chk)      # differential validation of the E2 value classes against plain floats (trusted base)
    rc = real_cases(tier)
    fc = fp_cases(tier)
    chk.bounds = {'real mode': '%d cases: blocks %r x tolerance {1e-2,1e-6} x iteration cap x reduction on/off; start values and exogenous in [-100,100], '
                  'exact reals; 1 period (2 for selected)' % (len(rc), sorted(BLOCKS)),
                  'fp mode': '%d cases: blocks %r, binary64 RNE, all finite doubles as start values / constants, cap 1 (2 thorough), every path' % (len(fc), sorted(FP_BLOCKS)),
                  'residual bound': 'per equation v: n * tol/(1-tol) * (max(1,|v|) + sum_w |A_vw| max(1,|w|)) over the simultaneous variables w it reads (derived from the exit test; the magnitudes of the values the equation involves, not the largest value in the block); '
                  'decorative, alias, lagged, exogenous, time: exact'}
    chk.assumptions = ['E2 value classes validated on every run: 7 concrete solver runs through SymReal (agree with floats to 1e-9) and SymFP (bit-identical with floats)', 'real mode uses exact real arithmetic (rounding is the FP clause`s business)', 'inputs (start values, exogenous, constants) are finite',
                       'max() inside the solver module is shadowed by an ite-building equivalent in FP mode only (module-level name injection, no source change; '
                       'Python semantics max(a,b) = b if b > a else a)']
    chk.outside = ['more than 3 simultaneous variables', 'math.* functions and ** inside equations', 'residual bound for non-affine simultaneous equations '
                   '(those appear in FP mode and as exactly-checked decorative equations only)']
    for st, o in pmap(real_case, rc):
        if st != 'ok':
            chk.harness_errors.append(o[:800])
            continue
        chk.count('paths', o['paths'])
        chk.count('forks', o['forks'])
        chk.solver_s += o['solver_s']
        chk.queries += o['queries']
        what = 'real: block %s tol=%g cap=%d reduction=%s periods=%d' % tuple(o['case'][:5]) + ({'neighbour': ' with a same-named neighbour solver solved before every period', 'trace': ' with step tracing of the last period', 'tolerance-set-later': ' with the tolerance set on the solver after a block stating 0.25 was parsed'}[o['case'][5]] if len(o['case']) > 5 else '')
        if not o['exhaustive'] or o['unknown'] or o['dunknown']:
            chk.ob('unknown', what + ' (paths %d, unknown %d)' % (o['paths'], o['unknown'] + o['dunknown']))
            if o.get('cut_paths') and not o['viol']:
                # the value classes could not follow the solver along some path (e.g. a C-level math function received a symbolic value): probe concretely
                syn = ['%s@0' % n for n in BLOCKS[o['case'][0]][2]] + ['%s@%d' % (n, k) for n in BLOCKS[o['case'][0]][3] for k in range(1, o['case'][4] + 1)]
                for pv in ('1', '9/4'):
                    chk.probe('real:%s:%s' % (o['case'][0], o['case'][3]), what + ': concrete probe at %s after a cut symbolic path' % pv,
                              REPLAY_REAL % dict(case=o['case'], vals={n: pv for n in syn}))
        else:
            chk.ob('sat' if o['viol'] else 'unsat', what, distinct=('real',) + tuple(o['case']))
            if o['outcomes'].get('solved'):
                chk.count('solved_paths', o['outcomes']['solved'])
        if o['viol']:
            chk.violation('real:%s:%s' % (o['case'][0], o['case'][3]), what + ': ' + o['viol']['why'], REPLAY_REAL % dict(case=o['case'], vals=o['viol']['vals']))
        chk.extra.setdefault('case_wall_s', {})[what] = round(o['wall'], 1)
        if len(chk.samples) < 10:
            chk.sample({'harness': what, 'paths': o['paths'], 'forks': o['forks'], 'outcomes': o['outcomes'], 'exhaustive': o['exhaustive']})
    chk.witness(chk.counters.get('solved_paths', 0) > 0, 'some path returns normally')
    fres = []
    jobs = []
    for st, o in pmap(fp_case, fc):
        if st != 'ok':
            chk.harness_errors.append(o[:800])
            continue
        ci = len(fres)
        fres.append(o)
        for q in o['smt2']:
            jobs.append((ci, q, o['names'], o['case'][2]))
    for st, r in pmap(fp_query_job, jobs):
        if st != 'ok':
            chk.harness_errors.append(r[:800])
            continue
        ci, verdict, vals, dt = r
        o = fres[ci]
        o['queries'] += 1
        o['solver_s'] += dt
        if verdict == 'sat':
            o['sat_paths'] += 1
            if o['viol'] is None:
                o['viol'] = {'vals': vals}
        elif verdict != 'unsat':
            o['unknown'] += 1
    for o in fres:
        chk.count('paths', o['paths'])
        chk.count('forks', o['forks'])
        chk.solver_s += o['solver_s']
        chk.queries += o['queries']
        what = 'fp: block %s cap=%d binary%d: no normally-returning path reports NaN/inf' % o['case']
        if not o['exhaustive'] or o['unknown']:
            chk.ob('unknown', what + ' (paths %d, unknown %d)' % (o['paths'], o['unknown']))
        else:
            chk.ob('sat' if o['viol'] else 'unsat', what, distinct=('fp',) + tuple(o['case']))
        if o['viol']:
            kind = 'decorative' if o['case'][0] == 'overflowing-deco' else 'iterate'
            chk.violation('fp:nonfinite-reported-as-solved:%s' % kind, what + ' fails at %r' % (o['viol']['vals'],),
                          REPLAY_FP % dict(case=o['case'], vals=o['viol']['vals']))
        chk.extra.setdefault('case_wall_s', {})[what] = round(o['wall'] + o['solver_s'], 1)
        chk.sample({'harness': what, 'paths': o['paths'], 'outcomes': o['outcomes'], 'qf_fp_queries': o['queries'], 'sat_paths': o['sat_paths']}, cap=20)
    chk.exhaustive = True
    nf = nonfinite_exogenous_outcomes()
    chk.bounds['non-finite exogenous path'] = ('%d concrete runs: an exogenous path holding %r in period 1 or 3 (or beyond the horizon), used by %r, reduction on/off: refused or solved with '
                                              'finite values only (concrete: the value is a float literal that overflows)' % (len(nf), NONFINITE_VALUES, sorted(NONFINITE_USES)))
    chk.count('nonfinite_exogenous_concrete_cases', len(nf))
    for use in sorted(NONFINITE_USES):
        rs = [r for r in nf if r[0] == use]
        bad = [r for r in rs if not r[5]]
        what = 'exogenous path that is not finite in a period k >= 1 (%s): never reported as a solved value' % use
        chk.ob('sat' if bad else 'unsat', what, distinct=('nonfinite-exogenous', use))
        if bad:
            chk.violation('nonfinite-exogenous:%s' % use, what + ': ' + '; '.join('%s at k=%d reduction %s -> %s' % (r[1], r[2], r[3], r[4]) for r in bad[:3]), REPLAY_NONFINITE % dict(use=use))
    return chk.finish()
