"""C19 tab-delimited output is a faithful table of the results: E3 (CrossHair)."""
import os

from vf import chx
from vf.common import Check, ROOT
import sfc_models.utils
import sfc_models.equation_solver

H = os.path.join(ROOT, 'vf', 'harness', 'c19_h.py')


def run(tier, seed):
    chk = Check('C19', tier, 'model_checking', seed)
    chk.encode(sfc_models.utils.TimeSeriesHolder.GetSeriesList, sfc_models.utils.TimeSeriesHolder.GenerateCSVtext,
               sfc_models.equation_solver.EquationSolver.GenerateCSVtext, sfc_models.equation_solver.EquationSolver.SolveEquation)
    T = 90 if tier == 'quick' else 300
    chk.bounds = {'header': 'symbolic subset (6 booleans) of four 6-name pools containing all five priority names and prefix/case-sharing others',
                  'rows': 'three series of symbolic ragged lengths 0..4, position-coded cells, formats %d %.5g %0.2f %s, rendered twice',
                  'after solve': 'horizon T 0..3 (symbolic), exogenous length 0..5 (symbolic), reduction on/off, one extra line from 9 that define no variable of the system (initial condition for an unknown / exogenous / lagged name, malformed lines, parameter, comment)', 'per_condition_timeout_s': T}
    chk.assumptions = ['cell values are concrete position codes (symbolic values through %-formatting are realised by CrossHair); structure, lengths, '
                       'selection and horizon are symbolic']
    chk.outside = ['"parsing the text recovers every value to the format\'s precision": C-level printf formatting realises symbolic values - not '
                   'decidable by the solver-based engines here (not claimed)', 'more than 6 names per table, series longer than 4']
    res = chx.run_file(H, timeout=T)
    chx.absorb(chk, H, res)
    chk.extra['states'] = max(len(res), 1)
    chk.extra['transitions'] = max(len(res), 1)
    chk.exhaustive = all(r['verdict'] in ('confirmed', 'counterexample') for r in res)
    return chk.finish()
