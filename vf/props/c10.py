"""C10 exogenous paths, initial conditions and horizon are honoured verbatim: E3 (CrossHair) on the solver-level API;
the Model-level wrappers (values pass through repr()/str(float()) text) are an enumerated, concrete side-check."""
import itertools
import os

from vf import chx
from vf.common import Check, ROOT
import sfc_models.equation_solver
import sfc_models.equation_parser
import sfc_models.models

H = os.path.join(ROOT, 'vf', 'harness', 'c10_h.py')


def model_level_cases():
    """Concrete: Model.AddExogenous / AddInitialCondition / MaxTime through main()."""
    from sfc_models.models import Model, Country
    from sfc_models.sector import Sector
    bad = []
    n = 0
    for T, form, nval, icv in itertools.product((0, 1, 3), ('list', 'tuple', 'str', 'repeat-str', 'expression-str'), (1, 2, 4, 6), (7.25, 0.0, -3.0, 1 / 3., 0.1 + 0.2, 1e-9, -123456.7890123, 2.5e+17)):
        # values with short and with long decimal expansions (the API turns them into text on the way to the solver)
        vals = [1.5 + 0.25 * i + (i % 2) / 3. + (i % 3) * 1e-9 for i in range(nval)]
        m = Model()
        c = Country(m, 'CO')
        s = Sector(c, 'S')
        s.AddVariable('G', 'exo', '0.0')
        s.AddVariable('Y', 'endo', 'G + 1')
        s.AddVariable('LAGY', 'lag', 'Y(k-1)')
        # 'expression-str': text that starts with a letter (the Model writes its marker word directly in front of the text).  A bare number as text
        # is documented as unsupported by Model.AddExogenous (the tokenizer splits 'EXOGENOUS1.5') and is not in the family.
        spec = {'list': list(vals), 'tuple': tuple(vals), 'str': repr(vals), 'repeat-str': '[%r,]*%d' % (vals[0], nval),
                'expression-str': 'sum(%r, [])' % ([[v] for v in vals],)}[form]
        want = vals if form != 'repeat-str' else [vals[0]] * nval
        m.AddExogenous('S', 'G', spec)
        m.AddInitialCondition('S', 'Y', icv)
        s.AddVariable('D', 'derived only', 'G * 2')
        m.AddInitialCondition('S', 'D', icv)
        m.MaxTime = T
        n += 1
        try:
            m.main()
        except ValueError:
            if nval >= T + 1:
                bad.append((T, form, nval, icv, 'rejected although long enough'))
            continue
        except Exception as e:
            bad.append((T, form, nval, icv, 'main raises %r' % (e,)))
            continue
        if nval < T + 1:
            bad.append((T, form, nval, icv, 'accepted although too short'))
            continue
        ts = m.EquationSolver.TimeSeries
        ok = all(len(ts[v]) == T + 1 for v in ts) and ts['S__G'] == want[0:T + 1] and ts['S__Y'][0] == icv and ts['S__D'][0] == icv \
            and all(ts['S__LAGY'][k] == ts['S__Y'][k - 1] for k in range(1, T + 1)) and all(ts['t'][k] == k for k in range(1, T + 1))
        if not ok:
            bad.append((T, form, nval, icv, 'series differ: %r' % ({v: ts[v] for v in ts},)))
    return n, bad


def steady_state_excluded_cases():
    """Concrete: with the initial steady-state search switched on, the variables the user EXCLUDES from the search (a user-defined time axis built
    from a lag, which never settles) keep their stated initial conditions; horizon, exogenous series and lags are as without the search."""
    from sfc_models.equation_solver import EquationSolver, NoEquilibriumError
    bad = []
    n = 0
    for T, t0, step, horizon in itertools.product((3, 12), (1950., 0.1 + 0.2, -7.25), (0.25, 1.0), (5, 60)):
        block = ("x = 0.5*lag_x + g\nlag_x = x(k-1)\nt = lag_t + %r\nlag_t = t(k-1)\nt(0) = %r\nlag_t(0) = %r\nexogenous\ng = [10.]*5 + [12.]*20\ntax = 0.2\nMaxTime = %d"
                 % (step, t0, t0 - step, T))
        for excluded in (['t', 'lag_t'], ['lag_t', 't', 'x']):
            es = EquationSolver(block)
            es.ParameterSolveInitialSteadyState = True
            es.ParameterInitialSteadyStateMaxTime = horizon
            es.ParameterInitialSteadyStateExcludedVariables = list(excluded)
            n += 1
            try:
                es.SolveEquation()
            except NoEquilibriumError:
                continue                # the search refuses (too short a search horizon for the stock to settle): not a successful solve
            except Exception as e:
                bad.append((T, t0, step, horizon, tuple(excluded), 'raises %r' % (e,)))
                continue
            ts = es.TimeSeries
            want_t = [t0]
            for i in range(T):
                want_t.append(want_t[-1] + step)
            ok = all(len(ts[v]) == T + 1 for v in ts) and list(ts['g']) == ([10.] * 5 + [12.] * 20)[0:T + 1] and list(ts['tax']) == [0.2] * (T + 1) \
                and ts['t'][0] == t0 and ts['lag_t'][0] == t0 - step and list(ts['t']) == want_t \
                and all(ts['lag_t'][k] == ts['t'][k - 1] and ts['lag_x'][k] == ts['x'][k - 1] for k in range(1, T + 1))
            if not ok:
                bad.append((T, t0, step, horizon, tuple(excluded), 't = %r, lag_t(0) = %r' % (list(ts['t'])[:3], ts['lag_t'][0])))
    return n, bad


# ---- E2: exogenous values symbolic through the unmodified solver, any block shape, reduction on/off -----------------------------

E2_BLOCKS = {
    'endo': ("x = G\nL = x(k-1)\nd = x + 1\nx(0) = %(ic)s\nexogenous", 'x'),
    'affine': ("x = 0.25*x + G\nL = x(k-1)\nd = x + L\nL(0) = %(ic)s\nErr_Tolerance = 0.05\nexogenous", 'L'),
    'deco': ("x = G\ny = 0.25*x + 1\nd = y + x\nd(0) = %(ic)s\nexogenous", 'd'),
    'const': ("c = 3.0\nx = G + c\nL = x(k-1)\nc(0) = %(ic)s\nexogenous", 'c'),
    'time': ("x = G\nt = k + 10\nL = t(k-1)\nx(0) = %(ic)s\nexogenous", 'x'),
    # initial condition stated for the time axis itself: the automatic one (t = k is supplied by the parser) and a user-defined one
    'auto-time-ic': ("x = G\nL = x(k-1)\nd = x + 1\nt(0) = %(ic)s\nexogenous", 't'),
    'user-time-ic': ("x = G\nt = k + 10\nL = t(k-1)\nt(0) = %(ic)s\nexogenous", 't'),
    # the spelling with blanks before the marker, which the parser documents as accepted ('x (0) = 1.'): endogenous, lagged and decorative variables
    'endo-spaced': ("x = G\nL = x(k-1)\nd = x + 1\nx (0) = %(ic)s\nexogenous", 'x'),
    'affine-spaced': ("x = 0.25*x + G\nL = x(k-1)\nd = x + L\nL  (0) = %(ic)s\nErr_Tolerance = 0.05\nexogenous", 'L'),
    'deco-spaced': ("x = G\ny = 0.25*x + 1\nd = y + x\n d (0)  = %(ic)s\nexogenous", 'd'),
}
USER_TIME = ('time', 'user-time-ic')


E2_BUDGET = [60]


def e2_case(case):
    import z3
    from vf import symx
    from vf.symx import Driver, SymReal
    from sfc_models.equation_solver import EquationSolver
    shape, T, nval, ic, reduce = case
    text, icvar = E2_BLOCKS[shape]
    D = Driver(timeout_ms=10000, max_paths=20000, max_seconds=E2_BUDGET[0])
    gs = [z3.Real('g%d' % i) for i in range(nval)]
    for g in gs:
        D.assume(g >= -100, g <= 100)
    out = {'case': case, 'viol': None, 'unknown': 0, 'outcomes': {}}

    def path():
        es = EquationSolver(run_equation_reduction=reduce)
        es.MaxTime = T
        es.ParseString(text % dict(ic=repr(ic)))
        es.Parser.Exogenous.append(('G', [SymReal(g) for g in gs]))
        try:
            es.SolveEquation()
        except ValueError as e:
            o = 'ValueError'
            out['outcomes'][o] = out['outcomes'].get(o, 0) + 1
            if nval >= T + 1 and out['viol'] is None:
                r, m = D.holds(z3.BoolVal(False))
                out['viol'] = {'why': 'rejected although the exogenous list is long enough: %s' % e,
                               'g': [str(m.eval(g, model_completion=True)) for g in gs] if m is not None else ['1'] * nval}
            return o
        o = 'solved'
        out['outcomes'][o] = out['outcomes'].get(o, 0) + 1
        ts = es.TimeSeries
        if nval < T + 1:
            if out['viol'] is None:
                out['viol'] = {'why': 'accepted although the exogenous list is too short', 'g': ['1'] * nval}
            return o
        props = []
        if not all(len(ts[v]) == T + 1 for v in ts):
            if out['viol'] is None:
                out['viol'] = {'why': 'series lengths %r' % ({v: len(ts[v]) for v in ts},), 'g': ['1'] * nval}
            return o
        L = symx.lift
        if 't' not in ts or icvar not in ts:
            if out['viol'] is None:
                out['viol'] = {'why': 'no series for %s (series: %r)' % ('t' if 't' not in ts else icvar, sorted(ts)), 'g': ['1'] * nval}
            return o
        for k in range(T + 1):
            props.append(L(ts['G'][k]) == gs[k])
            props.append(L(ts['k'][k]) == k)
            if k >= 1:
                if shape in USER_TIME:
                    props.append(L(ts['t'][k]) == k + 10)
                    props.append(L(ts['L'][k]) == L(ts['t'][k - 1]))
                else:
                    props.append(L(ts['t'][k]) == k)
                    if 'L' in ts:
                        props.append(L(ts['L'][k]) == L(ts['x'][k - 1]))
        props.append(L(ts[icvar][0]) == symx.rat(float(ic)))
        r, m = D.holds(z3.And(props))
        if r == 'sat' and out['viol'] is None:
            out['viol'] = {'why': 'a verbatim clause (exogenous series / k=0 value / lag / time axis) fails',
                           'g': [str(m.eval(g, model_completion=True)) for g in gs]}
        elif r == 'unknown':
            out['unknown'] += 1
        return o
    D.run_all(path)
    out.update(paths=D.paths, forks=D.forks, queries=D.queries, solver_s=D.solver_s, exhaustive=D.exhaustive, dunknown=D.unknown)
    return out


def e2_cases(tier):
    out = []
    for shape in E2_BLOCKS:
        for T in ((0, 1, 2) if tier == 'quick' else (0, 1, 2, 3)):
            if shape.startswith('affine') and T > (1 if tier == 'quick' else 2):
                continue      # the damped loop of a genuinely iterated block multiplies paths per period
            for nval in (T, T + 1, T + 2):
                for ic in ((-2.5, 7.0) if tier == 'quick' else (-2.5, 0.0, 7.0)):
                    for reduce in (True, False):
                        out.append((shape, T, nval, ic, reduce))
    return out


REPLAY_E2 = '''
import sys
from fractions import Fraction as F
from sfc_models.equation_solver import EquationSolver
from vf.props.c10 import E2_BLOCKS, USER_TIME
shape, T, nval, ic, reduce = %(case)r
g = [float(F(x)) for x in %(g)r]
text, icvar = E2_BLOCKS[shape]
es = EquationSolver(run_equation_reduction=reduce); es.MaxTime = T
es.ParseString(text %% dict(ic=repr(ic)) + "\\nG = " + repr(g))
try:
    es.SolveEquation()
except ValueError as e:
    print('ValueError', e); sys.exit(1 if nval >= T + 1 else 0)
ts = es.TimeSeries
print({v: ts[v] for v in ts})
if nval < T + 1: sys.exit(1)
if 't' not in ts or icvar not in ts: sys.exit(1)
ok = all(len(ts[v]) == T + 1 for v in ts) and ts['G'] == g[0:T + 1] and ts[icvar][0] == ic and all(ts['k'][k] == k for k in range(T + 1))
if shape in USER_TIME:
    ok = ok and all(ts['t'][k] == k + 10 and ts['L'][k] == ts['t'][k - 1] for k in range(1, T + 1))
else:
    ok = ok and all(ts['t'][k] == k for k in range(1, T + 1)) and ('L' not in ts or all(ts['L'][k] == ts['x'][k - 1] for k in range(1, T + 1)))
sys.exit(0 if ok else 1)
'''

REPLAY_MODEL = '''
import sys
from vf.props.c10 import model_level_cases
n, bad = model_level_cases()
print(bad[:3]); sys.exit(1 if bad else 0)
'''


def run(tier, seed):
    chk = Check('C10', tier, 'model_checking', seed)
    ES = sfc_models.equation_solver.EquationSolver
    chk.encode(ES.SetInitialConditions, ES.SolveEquation, ES.SolveStep, ES._SolveStep, ES.ParseString, ES.ExtractVariableList,
               sfc_models.equation_parser.EquationParser.ParseString, sfc_models.models.Model.AddExogenous,
               sfc_models.models.Model.AddInitialCondition, sfc_models.models.Model._ProcessExogenous,
               sfc_models.models.Model._GenerateInitialConditions)
    T = 240 if tier == "quick" else 600
    chk.bounds = {'horizon': '0..2 (3 for scalar/tuple), symbolic, set on the solver and via MaxTime=', 'exogenous': 'list length <= 3 with symbolic float '
                  'values in [-100,100]; float scalar (broadcast); tuple', 'initial condition': 'symbolic float on a lagged / decorative variable (CrossHair); on endogenous and '
                  'constant variables the value is enumerated and the exogenous values symbolic (E2)', 'reduction': 'on/off (symbolic bool)', 'per_condition_timeout_s': T}
    chk.bounds['E2 part'] = 'block shapes %r x T 0..2(3) x exogenous length T..T+2 x initial value x reduction on/off; exogenous VALUES symbolic reals in [-100,100]' % (sorted(E2_BLOCKS),)
    chk.assumptions = ['symbolic values enter through names injected into the solver module eval globals (G = SYM_G, x(0) = SYM_IC): code under test unmodified',
                       'blocks are loop-light (alias/affine in one variable) so that CrossHair exhausts the iteration']
    chk.outside = ['steady-state initialisation on, for the variables the search covers (C15; the search replaces their stated initial conditions, pinned by the test-suite) - the variables the user excludes from the search are covered here', 'Model-level value clause with symbolic values: AddExogenous/AddInitialCondition turn values '
                   'into text (repr/str(float)), which realises them; checked by a concrete enumeration instead (reported separately)',
                   'horizons above 3']
    from vf import selfcheck
    selfcheck.run(chk)      # differential validation of the E2 value classes (trusted base) against plain floats
    res = chx.run_file(H, timeout=T)
    chx.absorb(chk, H, res)
    from vf.par import pmap
    cases = e2_cases(tier)
    E2_BUDGET[0] = 60 if tier == 'quick' else 400
    for st, o in pmap(e2_case, cases):
        if st != 'ok':
            chk.harness_errors.append(o[:800])
            continue
        chk.count('paths', o['paths'])
        chk.count('forks', o['forks'])
        chk.solver_s += o['solver_s']
        chk.queries += o['queries']
        what = 'E2 SolveEquation shape=%s T=%d len(G)=%d ic=%r reduction=%s, exogenous values symbolic' % o['case']
        if not o['exhaustive'] or o['unknown'] or o['dunknown']:
            chk.ob('unknown', what)
        else:
            chk.ob('sat' if o['viol'] else 'unsat', what, distinct=('e2',) + tuple(o['case']))
        if o['viol']:
            chk.violation('e2:%s:%s' % (o['case'][0], o['viol']['why'][:50]), what + ': ' + o['viol']['why'], REPLAY_E2 % dict(case=o['case'], g=o['viol']['g']))
        elif len([s_ for s_ in chk.samples if 'E2' in str(s_)]) < 4:
            chk.sample({'harness': what, 'paths': o['paths'], 'outcomes': o['outcomes'], 'verdict': 'verbatim clauses hold on every path'}, cap=40)
    n2, bad2 = steady_state_excluded_cases()
    chk.counters['steady_state_excluded_cases'] = n2
    chk.obligations += n2
    chk.discharged += n2 - len(bad2)
    for b in bad2:
        chk.violation('steady-state-excluded:%r' % (b[:5],), 'steady-state search on, excluded variables %r with stated initial conditions (horizon %d, t(0) = %r, step %r, search horizon %d): %s' % (b[4], b[0], b[1], b[2], b[3], b[5]),
                      'import sys\nfrom vf.props.c10 import steady_state_excluded_cases\nn, bad = steady_state_excluded_cases()\nhit = [b for b in bad if b[:5] == %r]\nprint(hit)\nsys.exit(1 if hit else 0)\n' % (b[:5],))
    chk.bounds['steady-state search and excluded variables'] = '%d concrete cases: a user-defined time axis built from a lag, excluded from the search, keeps its stated initial condition' % n2
    n, bad = model_level_cases()
    chk.counters['model_level_concrete_cases'] = n
    chk.obligations += n
    chk.discharged += n - len(bad)
    chk.sample({'harness': 'concrete Model.AddExogenous/AddInitialCondition/MaxTime through main()', 'cases': n, 'failures': len(bad)})
    if bad:
        chk.violation('model-level:%r' % (bad[0][:4],), 'Model-level exogenous/IC/horizon: %r' % (bad[0],), REPLAY_MODEL)
    chk.extra['states'] = max(len(res), 1)
    chk.extra['transitions'] = max(len(res), 1)
    chk.exhaustive = all(r['verdict'] in ('confirmed', 'counterexample') for r in res)
    return chk.finish()
