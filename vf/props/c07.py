"""C07 cross-currency flows conserve value at the prevailing exchange rates: E1 over multi-currency topologies."""
import z3

from vf import zoo as Z
from vf.common import Check
from vf.zoolib import Setup, absorb, full_model, EXACT_REPLAY_HEAD
from vf.eqsmt import val_fraction
from vf.par import pmap
from vf.emit import emit
import sfc_models.external
import sfc_models.models
import sfc_models.sector
from sfc_models.utils import LogicError


def coef(S, sector, var_term, x, per='b'):
    """finite difference of a sector's F right-hand side in the variable x (z3 term)."""
    rhs = S.rhs(sector.GetVariableName('F'), per)
    return z3.simplify(z3.substitute(rhs, (x, x + 1)) - rhs)


def work(item):
    plan, order, tag = item
    su = Setup(plan, order=order, order_tag=tag)
    rec = su.base_rec()
    if not su.ok or su.untranslatable:
        return rec
    ctx, S, model = su.ctx, su.S, su.ctx.model
    ext = model.ExternalSector
    r0, _ = su.D.decide(su.cons + su.pos, ladder=False)
    if r0 != 'sat':
        r0, _ = su.D.decide(su.cons + su.pos, ladder=True, timeout_ms=120000)      # satisfiability witness from the nlsat rung, with more time
    rec['reach'] = r0
    fx, xr = ext['FX'], ext['XR']
    curs = [cz.Currency for cz in model.CurrencyZoneList]
    # (ii) numeraire-valued sum of the FX intermediary's net transactions is zero
    tot = z3.RealVal(0)
    terms = []
    for c in curs:
        if 'NET_' + c in fx.EquationBlock:
            tot = tot + S.var(fx.GetVariableName('NET_' + c), 'b') * S.var(xr.GetVariableName(c), 'b')
            terms.append(c)
    v, m = su.entail(tot == 0)
    ob = {'kind': 'fx-numeraire-sum', 'what': 'sum_c NET_c*XR_c = 0 over ' + ','.join(terms), 'verdict': v}
    if v == 'sat':
        ob['cex'] = full_model(m, S)
        ob['check'] = 'tot = sum(b["EXT_FX__NET_"+c]*b["EXT_XR__"+c] for c in %r); bad = tot != 0; print("numeraire-valued FX sum", float(tot))' % (terms,)
    rec['obs'].append(ob)
    # (iii) paired flows only -> numeraire position zero
    if 'gold' not in plan.features and 'numeraire-sector' not in plan.features:
        nn = S.var(fx.GetVariableName('NET_NUMERAIRE'), 'b')
        v, m = su.entail(nn == 0)
        ob = {'kind': 'numeraire-zero', 'what': 'NET_NUMERAIRE = 0 (paired flows only)', 'verdict': v}
        if v == 'sat':
            ob['cex'] = full_model(m, S)
            ob['check'] = 'bad = b["EXT_FX__NET_NUMERAIRE"] != 0; print("NET_NUMERAIRE", float(b["EXT_FX__NET_NUMERAIRE"]))'
        rec['obs'].append(ob)
    # (i) every cross-zone registered flow: sender -1, receiver +XR_src/XR_tgt
    allg = plan.meta.get('gifts', [])
    for src, dst, name in sorted(set(allg)):
        s, d = ctx[src], ctx[dst]
        if s.CurrencyZone is d.CurrencyZone:
            continue
        # a flow registered n times (n instalments) is booked n times: -n on the sender (every flow of this amount variable it sends), +n * rate on the receiver
        n_out = len([g for g in allg if g[0] == src and g[2] == name])
        n_in = len([g for g in allg if g == (src, dst, name)])
        x = S.var(s.GetVariableName(name), 'b')
        xs = S.var(xr.GetVariableName(s.CurrencyZone.Currency), 'b')
        xt = S.var(xr.GetVariableName(d.CurrencyZone.Currency), 'b')
        for who, sec, want, wtxt in (('sender', s, z3.RealVal(-n_out), '-%d' % n_out), ('receiver', d, n_in * xs / xt, '%d*XR_src/XR_tgt' % n_in)):
            c = coef(S, sec, None, x)
            v, m = su.entail(c == want)
            ob = {'kind': 'flow-coefficient', 'what': '%s %s of %s: dF/d%s = %s' % (who, sec.FullCode, name, s.GetVariableName(name), wtxt),
                  'verdict': v}
            if v == 'sat':
                ob['cex'] = full_model(m, S)
                ob['check'] = ('from vf.replaylib import eval_exact\n'
                               'rhs = dict(em.parser.Endogenous)[%r]\n'
                               'e1 = dict(b); e1[%r] = b[%r] + 1\n'
                               'c = eval_exact(rhs, e1) - eval_exact(rhs, b)\n'
                               'want = %s\n'
                               'bad = c != want; print("coefficient", float(c), "expected", float(want))'
                               % (sec.GetVariableName('F'), s.GetVariableName(name), s.GetVariableName(name),
                                  'F(-%d)' % n_out if who == 'sender' else '%d*b[%r]/b[%r]' % (n_in, xr.GetVariableName(s.CurrencyZone.Currency),
                                                                                              xr.GetVariableName(d.CurrencyZone.Currency))))
            rec['obs'].append(ob)
    # a sector outside a market's currency zone that merely carries a variable named like a demand for that market: no flow crosses the boundary, so
    # nothing is booked anywhere (neither in the sector's ledger nor in the market's demand, which would be an unconverted cross-currency payment)
    for skey, mkey in plan.meta.get('wishes', []):
        sec, mk = ctx[skey], ctx[mkey]
        wname = 'DEM_%s_%s' % (mk.Parent.Code, mk.Code)
        if wname not in sec.EquationBlock:
            continue
        x = S.var(sec.GetVariableName(wname), 'b')
        c1 = coef(S, sec, None, x)
        drhs = S.rhs(mk.GetVariableName('DEM_' + mk.Code), 'b')
        c2 = z3.simplify(z3.substitute(drhs, (x, x + 1)) - drhs)
        for what, c in (('ledger of %s does not move with its %s' % (sec.FullCode, wname), c1), ('demand on market %s does not count %s of %s' % (mk.FullCode, wname, sec.FullCode), c2)):
            v, m = su.entail(c == 0)
            ob = {'kind': 'no-unconverted-flow', 'what': what, 'verdict': v}
            if v == 'sat':
                ob['cex'] = full_model(m, S)
                ob['check'] = ('E = dict(list(em.parser.Endogenous) + list(em.parser.Decoration))\n'
                               'uses = [v for v, e in E.items() if %r in e.replace(" ", "") and v in (%r, %r)]\n'
                               'bad = bool(uses); print("equations that use the out-of-zone variable:", uses)'
                               % (sec.GetVariableName(wname), sec.GetVariableName('F'), mk.GetVariableName('DEM_' + mk.Code)))
            rec['obs'].append(ob)
    # cross-zone suppliers: supplier's own supply variable = market's assigned amount * XR_buyer/XR_seller, booked +1
    for cb, cs in plan.meta.get('imports', []):
        mk, sup = ctx[cb + '.GOOD'], ctx[cs + '.BUS']
        if mk.CurrencyZone is sup.CurrencyZone:
            continue
        assigned = S.var(mk.GetVariableName('SUP_' + sup.FullCode), 'b')
        own_name = sup.GetVariableName(mk.GetSupplierTerm(sup))
        own = S.var(own_name, 'b')
        xb = S.var(xr.GetVariableName(mk.CurrencyZone.Currency), 'b')
        xs = S.var(xr.GetVariableName(sup.CurrencyZone.Currency), 'b')
        v, m = su.entail(own == assigned * xb / xs)
        ob = {'kind': 'supplier-credit', 'what': '%s = %s * XR_buyer/XR_seller' % (own_name, mk.GetVariableName('SUP_' + sup.FullCode)), 'verdict': v}
        if v == 'sat':
            ob['cex'] = full_model(m, S)
            ob['check'] = ('want = b[%r]*b[%r]/b[%r]; bad = b[%r] != want; print("credited", float(b[%r]), "expected", float(want))'
                           % (mk.GetVariableName('SUP_' + sup.FullCode), xr.GetVariableName(mk.CurrencyZone.Currency),
                              xr.GetVariableName(sup.CurrencyZone.Currency), own_name, own_name))
        rec['obs'].append(ob)
        # the inflow booked in the supplier's ledger for this market (own supply variable unfolded through its emitted
        # definition) moves one-for-XR_buyer/XR_seller with the amount the market assigns
        frhs = S.rhs(sup.GetVariableName('F'), 'b')
        frhs = z3.substitute(frhs, (own, S.rhs(own_name, 'b')))
        c = z3.simplify(z3.substitute(frhs, (assigned, assigned + 1)) - frhs)
        v, m = su.entail(c == xb / xs)
        aname = mk.GetVariableName('SUP_' + sup.FullCode)
        rec['obs'].append({'kind': 'flow-coefficient', 'what': 'supplier %s ledger: d(inflow)/d(%s) = XR_buyer/XR_seller' % (sup.FullCode, aname),
                           'verdict': v, 'cex': full_model(m, S) if v == 'sat' else None,
                           'check': ('from vf.replaylib import eval_exact\nE = dict(em.parser.Endogenous)\n'
                                     'def Fv(env):\n    e = dict(env); e[%r] = eval_exact(E[%r], env); return eval_exact(E[%r], e)\n'
                                     'e1 = dict(b); e1[%r] = b[%r] + 1\n'
                                     'c = Fv(e1) - Fv(b)\nwant = b[%r]/b[%r]\nbad = c != want; print("coefficient", float(c), "expected", float(want))'
                                     % (own_name, own_name, sup.GetVariableName('F'), aname, aname,
                                        xr.GetVariableName(mk.CurrencyZone.Currency), xr.GetVariableName(sup.CurrencyZone.Currency)))})
    # gold purchases are paid in local currency: -1 in the buyer's F
    for s in model.GetSectors():
        if 'GOLDPURCHASES' in s.EquationBlock and s.HasF:
            gp = s.GetVariableName('GOLDPURCHASES')
            c = coef(S, s, None, S.var(gp, 'b'))
            v, m = su.entail(c == -1)
            rec['obs'].append({'kind': 'flow-coefficient', 'what': 'gold purchases of %s booked with -1' % s.FullCode, 'verdict': v,
                               'cex': full_model(m, S) if v == 'sat' else None,
                               'check': ('from vf.replaylib import eval_exact\nrhs = dict(em.parser.Endogenous)[%r]\ne1 = dict(b); e1[%r] = b[%r] + 1\n'
                                         'c = eval_exact(rhs, e1) - eval_exact(rhs, b)\nbad = c != -1; print("coefficient", float(c))'
                                         % (s.GetVariableName('F'), gp, gp))})
    return su.finish(rec)


def work_noext(plan):
    """(iv) the same topology without an ExternalSector must be refused with an error."""
    ctx = Z.build(plan)
    em = emit(ctx)
    return {'plan': plan.name, 'err': type(em.err).__name__ if em.err is not None else None,
            'is_logic_error': isinstance(em.err, LogicError), 'text': bool(em.text)}


def crossers(tier):
    out = []
    for p in Z.zoo(tier):
        if p.has_external and (p.meta.get('gifts') or p.meta.get('imports') or 'gold' in p.features):
            out.append(p)
    return out


def noext_variants():
    G = lambda s, d, **kw: (lambda p: Z.gift(p, s, d, **kw))
    I = lambda a, b: (lambda p: Z.imports(p, a, b))
    V = []
    V.append(Z.two_zone('noext_gift', {}, {}, [G('AA.HH', 'BB.HH')], ext=False))
    V.append(Z.two_zone('noext_gift_rev', dict(gov='tre_cb'), dict(hh='hhexp'), [G('BB.HH', 'AA.HH', inc_src=False)], ext=False))
    V.append(Z.two_zone('noext_imports', dict(firm='multi'), dict(firm='multi'), [I('AA', 'BB')], ext=False))
    V.append(Z.two_zone('noext_imports_both', dict(firm='multi', gov='tre_cb'), dict(firm='multi'), [I('AA', 'BB'), I('BB', 'AA')], ext=False))
    V.append(Z.two_zone('noext_gold', dict(gov='gold_gov'), {}, [], ext=False))
    V.append(Z.two_zone('noext_goldcb', dict(gov='tre_goldcb'), {}, [], ext=False))
    return V


REPLAY_NOEXT = '''
import sys
from vf.props.c07 import noext_variants
from vf import zoo as Z
from vf.emit import emit
from sfc_models.utils import LogicError
plan = [p for p in noext_variants() if p.name == %(plan)r][0]
em = emit(Z.build(plan))
print('outcome without ExternalSector:', repr(em.err))
sys.exit(0 if isinstance(em.err, LogicError) else 1)
'''


def run(tier, seed):
    chk = Check('C07', tier, 'translation_validation', seed)
    chk.encode(sfc_models.external.ForexTransations._SendMoney, sfc_models.external.ForexTransations._ReceiveMoney,
               sfc_models.external.ExchangeRates.GetCrossRate, sfc_models.external.ExternalSector.RegisterCurrency,
               sfc_models.external.InternationalGold.SetGoldPurchases,
               sfc_models.models.Model._GenerateRegisteredCashFlows, sfc_models.sector.Market._GenerateMultiSupply)
    from vf import zoolib
    zoolib.XCHECK_EVERY[0] = 16 if tier == 'quick' else 3
    plans = crossers(tier)
    chk.bounds = {'topologies': len(plans), 'currencies': '2 (quick) / 2-3 (thorough)',
                  'periods': 'any one period (equations of period b with a model-consistent predecessor a)',
                  'numeric domain': 'all reals; every exchange rate exogenous, time-varying, > 0'}
    chk.assumptions = ['exchange-rate variables > 0', 'numeraire rate as emitted (never freed)', 'reals; z3 total division']
    chk.outside = ['more than 3 currencies', 'user-written FX sectors']

    def on_ob(rec, ob):
        chk.ob(ob['verdict'], '%s %s' % (rec['plan'], ob['what']), distinct=(rec['plan'], rec['order_tag'], ob['what']))
        chk.sample({'topology': rec['plan'], 'obligation': ob['kind'], 'what': ob['what'], 'verdict': ob['verdict'],
                    'equations': rec['n_eq']})
        if ob['verdict'] == 'sat':
            key = '%s:%s:%s' % (rec['plan'], rec['order_tag'], ob['what'])
            src = EXACT_REPLAY_HEAD % dict(plan=rec['plan'], cex=ob['cex'], order=rec['order']) + ob['check'] + '\nsys.exit(1 if bad else 0)\n'
            chk.violation(key, 'topology %s (declaration order: %s): %s fails' % (rec['plan'], rec['order_tag'], ob['what']), src)
    from vf.zoolib import plan_orders
    absorb(chk, pmap(work, plan_orders(plans, tier)), on_ob)
    for st, r in pmap(work_noext, noext_variants()):
        if st != 'ok':
            chk.harness_errors.append(r[:400])
            continue
        chk.ob('unsat' if r['is_logic_error'] else 'sat', distinct=(r['plan'], 'refused'))
        chk.count('outcome_checks')
        chk.sample({'topology': r['plan'], 'obligation': 'refused-without-external-sector (enumerated outcome check)', 'outcome': r['err']}, cap=16)
        if not r['is_logic_error']:
            chk.violation(r['plan'] + ':not-refused', 'cross-currency topology %s accepted without an ExternalSector (outcome %s)' % (r['plan'], r['err']),
                          REPLAY_NOEXT % dict(plan=r['plan']))
    chk.exhaustive = True
    return chk.finish()
