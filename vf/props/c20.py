"""C20 generated stand-alone solver agrees with the in-process solver.
The real IterativeMachineGenerator.main() writes a module per block (scratch dir); the module is imported and its
RunOneStep runs under E2 with exogenous and previous-period values symbolic; E1 compares the generated Iterator body
with the parser's equations."""
import importlib.util
import os
import re
import shutil
import sys
import tempfile
import warnings

import z3

from vf import symx
from vf.symx import Driver, SymReal
from vf.common import Check
from vf.eqsmt import to_z3, Untranslatable
from vf.par import pmap
import sfc_models.deprecated.iterative_machine_generator as IMG
from sfc_models.deprecated.iterative_machine_generator import IterativeMachineGenerator
from sfc_models.equation_parser import EquationParser
import sfc_models.base_solver

# name -> (text, simultaneous gain (max abs row sum), symbolic previous-period names, exogenous names)
BLOCKS = {
    'no-time':        ("x = 0.5*x + G\nErr_Tolerance = 0.01\nMaxTime = 2\nexogenous\nG = [1., 2., 3.]", 0.5, ['x'], ['G']),
    'user-time':      ("x = 0.5*x + G\nt = LAG_t + 1.0\nLAG_t = t(k-1)\nErr_Tolerance = 0.01\nMaxTime = 2\nexogenous\nG = [1., 2., 3.]", 0.5, ['x'], ['G']),
    'lags':           ("x = 0.25*y + 0.5*LX + G\ny = 0.5*x + 1\nLX = x(k-1)\nErr_Tolerance = 0.01\nMaxTime = 2\nexogenous\nG = [1., 2., 3.]", 0.5, ['x', 'y'], ['G']),
    'constants-ic':   ("a = 0.5\nx = a*LX + G + c\nc = 2.0\nLX = x(k-1)\nx(0) = 4.0\nt = LT + 1.0\nLT = t(k-1)\nErr_Tolerance = 0.01\nMaxTime = 2\nexogenous\nG = [1., 2., 3.]",
                       1.0, ['x'], ['G']),
    'two-exogenous':  ("x = 0.5*x + G - H\nd = x + H\nErr_Tolerance = 0.01\nMaxTime = 2\nexogenous\nG = [1., 2., 3.]\nH = [0.5, 0.5, 0.5]", 1.0, ['x'], ['G', 'H']),
    'time-in-eq':     ("x = 0.5*x + t\nErr_Tolerance = 0.01\nMaxTime = 2", 1.0, ['x'], []),
    # constants in every literal spelling float() accepts (exponent forms, bare leading / trailing dot, signs), one of them used as a divisor
    'constant-spellings': ("r = 2.5e-2\nb = coupon/r\ncoupon = 1E0\nm = -2\nh = .25\nw = 3.\nu = +1.5\nx = 0.5*x + G + h*m + w - u\nLB = b(k-1)\nb(0) = 40.0\n"
                           "Err_Tolerance = 0.01\nMaxTime = 2\nexogenous\nG = [1., 2., 3.]", 0.5, ['x'], ['G']),
    # a block whose iteration vector has a single entry (a user-defined constant time axis and nothing else)
    'single-variable': ("t = 2016.\nErr_Tolerance = 0.01\nMaxTime = 2", 0.0, [], []),
    # a lag of a lagged variable (two-period lag written as a chain), with an initial condition on the intermediate lag
    'lag-of-lag':     ("x = 0.5*LX + G\nLX = x(k-1)\nL2X = LX(k-1)\ny = 0.25*L2X + 1\nLX(0) = 3.0\nErr_Tolerance = 0.01\nMaxTime = 2\nexogenous\nG = [1., 2., 3.]", 0.0, ['x'], ['G']),
    # block variables named like the generated module's own loop locals: their values must not steer the module's iteration
    # (err starts above the tolerance and later falls below it / turns negative; cnt grows past the iteration cap)
    'template-local-names': ("err = 0.5*LE + G - 2.0\nLE = err(k-1)\ncnt = LC + 250.0\nLC = cnt(k-1)\nx = 0.5*x + err\nerr(0) = 2.0\nErr_Tolerance = 0.01\nMaxTime = 2\n"
                             "exogenous\nG = [1., 2., 3.]", 0.5, ['x'], ['G']),
    'template-local-names-2': ("new_vector = 0.5*new_vector + G\norig_vector = new_vector + 1\nin_vec = LO + G\nLO = orig_vector(k-1)\nErr_Tolerance = 0.01\nMaxTime = 2\n"
                               "exogenous\nG = [1., 2., 3.]", 0.5, ['new_vector'], ['G']),
    # an exogenous variable stated as a scalar (the in-process solver broadcasts it over the horizon)
    'scalar-exogenous': ("x = 0.5*x + G + S + R\nErr_Tolerance = 0.01\nMaxTime = 2\nexogenous\nG = [1., 2., 3.]\nS = 20.\nR = 0.0123456789", 0.5, ['x'], ['G']),
    # the time step k used only as the source of a lag, next to a user-defined time axis
    'k-as-lag-source': ("t = LT + 1.0\nLT = t(k-1)\nx = 0.5*x + PK + G\nPK = k(k-1)\nErr_Tolerance = 0.01\nMaxTime = 2\nexogenous\nG = [1., 2., 3.]", 0.5, ['x'], ['G']),
    # a lag chain declared after other lagged variables
    'lag-chain-after-other-lags': ("y = 0.5*LY + G\nx = 0.25*LC + y\nz = 0.5*L2X + 1\nLY = y(k-1)\nLC = z(k-1)\nLX = x(k-1)\nL2X = LX(k-1)\nErr_Tolerance = 0.01\nMaxTime = 2\n"
                                   "exogenous\nG = [1., 2., 3.]", 0.0, ['x', 'y', 'z'], ['G']),
    # an exogenous scalar written as an expression; comment texts with a backslash escape and with a triple quote (they are copied into the module's docstring)
    'scalar-expression-exogenous': ("x = 0.5*x + G + S  # see C:\\Users\\new \\u.txt\nErr_Tolerance = 0.01  # \"\"\" quoted\nMaxTime = 2\nexogenous\nG = [1., 2., 3.]\nS = 2*10.", 0.5, ['x'], ['G']),
    # iterates that overflow: the in-process solver raises (ConvergenceError); a run that ends "normally" with a non-finite value is not a solve
    'overflowing-iterates': ("x = x*x + 2.\nErr_Tolerance = 0.01\nMaxTime = 2", 0.0, [], []),
    # block variables spelled like (or containing) the bare-word placeholders of the module template (ITERATOR, MAXTIME, VAR_DECLARATION): text put into the
    # template must not itself be searched for placeholders
    'template-placeholder-names': ("ITERATOR = 0.5*ITERATOR + G\nMAXTIME = 2.\nMY_VAR_DECLARATION = 3.\nz = MAXTIME + MY_VAR_DECLARATION + ITERATOR\nErr_Tolerance = 0.01\nMaxTime = 2\n"
                                   "exogenous\nG = [1., 2., 3.]", 1.0, ['ITERATOR'], ['G']),
    # a block variable spelled like the Iterator's own "new value" names (NEW_<variable>) next to that variable
    'iterator-prefix-names': ("x = 2.\nNEW_x = 5.\nz = NEW_x + 1.\nErr_Tolerance = 0.01\nMaxTime = 2", 0.0, [], []),
    # division by a constant that is itself computed (b = a*2): its k=0 value is 0 in the module, and the module's sweep has no step-over for a transient 1/0
    'division-by-computed-constant': ("a = 2.\nb = a*2\nc = 1/b\nErr_Tolerance = 0.01\nMaxTime = 2", 0.0, [], []),
    # an exogenous scalar written with one of the functions the parser allows in equations (abs, max, min, ...)
    'scalar-builtin-exogenous': ("x = 0.5*x + G + S\nErr_Tolerance = 0.01\nMaxTime = 2\nexogenous\nG = [1., 2., 3.]\nS = abs(-20.) + max(1., 2.)", 0.5, ['x'], ['G']),
    # one lagged variable that is the lag source of TWO other lagged variables (fan-out)
    'lag-fan-out':    ("y = 0.5*LY + G\nc = 0.25*HL2 + 0.25*BL2 + y\nLY = y(k-1)\nHL2 = LY(k-1)\nBL2 = LY(k-1)\nLY(0) = 3.0\nErr_Tolerance = 0.01\nMaxTime = 2\nexogenous\nG = [1., 2., 3.]", 0.0, ['y'], ['G']),
    'static-user-time': ("x = 0.5*y + c\ny = 0.5*x + 1\nc = 2.0\nt = 2016.\nErr_Tolerance = 0.01\nMaxTime = 2", 0.5, ['x', 'y'], []),
}


def generate(name, scratch, history='once'):
    """history: 'once' = construct + main(); 'inspect-then-main' = GenerateEquations() to look at the lists, then main();
    'regenerate' = main() to a draft file, raise the horizon, main() again."""
    text = BLOCKS[name][0]
    gen = IterativeMachineGenerator(text)
    fname = os.path.join(scratch, 'gen_%s_%s.py' % (name.replace('-', '_'), history.replace('-', '_')))
    if history == 'inspect-then-main' and name in ('no-time', 'lags'):
        # the output path is copied into the module's docstring: a Windows-style relative path with a backslash escape in it (the test-suite itself writes 'output\\unittest_output_2.py')
        os.makedirs(os.path.join(scratch, 'out'), exist_ok=True)
        fname = os.path.join(scratch, 'out', '..', 'out\\unit_%s.py' % name.replace('-', '_')) if False else os.path.join(scratch, 'out\\unit_%s.py' % name.replace('-', '_'))
    if history == 'inspect-then-main':
        gen.GenerateEquations()
        gen.GenerateFunction()
    elif history == 'regenerate':
        gen.main(os.path.join(scratch, 'draft_%s.py' % name.replace('-', '_')))
        gen.MaxTime = gen.MaxTime + 1
        for i, (v, e) in enumerate(gen.Exogenous):
            if e.startswith('[1., 2., 3.]'):
                gen.Exogenous[i] = (v, '[1., 2., 3., 4.]')
            if e.startswith('[0.5, 0.5, 0.5]'):
                gen.Exogenous[i] = (v, '[0.5, 0.5, 0.5, 0.5]')
    gen.main(fname)
    return gen, fname


def load(fname):
    spec = importlib.util.spec_from_file_location(os.path.basename(fname)[:-3] + '_%d' % abs(hash(fname)) , fname)
    mod = importlib.util.module_from_spec(spec)
    spec.loader.exec_module(mod)
    return mod


def stated_exogenous(parser, symbolic):
    """The paths EquationSolver would use for the exogenous variables stated in the block (a scalar is broadcast)."""
    import math
    out = {}
    for v, e in parser.Exogenous:
        if v in symbolic:
            continue
        import builtins as _b
        val = eval(e.strip(), {'__builtins__': {n: getattr(_b, n) for n in ('float', 'max', 'min', 'sum', 'pow', 'abs', 'round')}}, dict(vars(math)))
        out[v] = [float(val)] * 3 if isinstance(val, (int, float)) else [float(x) for x in val]
    return out


def case_run(item):
    name, history = item if isinstance(item, tuple) else (item, 'once')
    text, gain, prev, exo = BLOCKS[name]
    scratch = tempfile.mkdtemp(prefix='sfcverif_c20_')
    out = {'case': name, 'history': history, 'viol': None, 'unknown': 0, 'outcomes': {}, 'iter_equiv': None, 'header': None}
    try:
        with warnings.catch_warnings():
            warnings.simplefilter('ignore')
            try:
                gen, fname = generate(name, scratch, history)
                mod = load(fname)
                probe = mod.SFCModel()
            except Exception as e:
                out['viol'] = {'why': 'generated module cannot be written/imported/instantiated: %r' % (e,), 'vals': {}}
                out.update(paths=0, forks=0, queries=0, solver_s=0.0, exhaustive=True, dunknown=0)
                return out
        parser = EquationParser()
        parser.ParseString(text)
        tol = float(parser.Err_Tolerance)
        # ---- E1: generated Iterator body == parser equations
        src = open(fname).read()
        body = dict(re.findall(r'^\s+NEW_([A-Za-z_0-9]+) = (.*)$', src, flags=re.M))
        diffs = []
        for v, e in parser.Endogenous:
            if v not in body:
                diffs.append((v, 'missing in Iterator'))
                continue
            try:
                env = lambda n: z3.Real('V_' + n)
                if not z3.eq(z3.simplify(to_z3(e, env) - to_z3(body[v], env)), z3.RealVal(0)):
                    diffs.append((v, 'Iterator has %r, parser %r' % (body[v], e)))
            except Untranslatable as ex:
                diffs.append((v, str(ex)))
        out['iter_equiv'] = diffs
        # ---- E2: RunOneStep for two periods on symbolic inputs
        D = Driver(timeout_ms=15000, max_paths=5000, max_seconds=120)
        syms = {}
        for n in prev:
            syms[n + '@0'] = z3.Real(n + '_0')
        for n in exo:
            for k in (1, 2):
                syms['%s@%d' % (n, k)] = z3.Real('%s_%d' % (n, k))
        for v in syms.values():
            D.assume(v >= -100, v <= 100)
        TOL = symx.rat(tol)

        def path():
            obj = mod.SFCModel()
            for n in exo:
                setattr(obj, n, [0.0] + [SymReal(syms['%s@%d' % (n, k)]) for k in (1, 2)])
            for n in prev:
                getattr(obj, n)[0] = SymReal(syms[n + '@0'])
            try:
                obj.RunOneStep()
                obj.RunOneStep()
            except ValueError:
                o = 'ValueError'
            except Exception as e:
                o = 'crash:' + type(e).__name__
                if out['viol'] is None:
                    out['viol'] = {'why': 'generated module raises %r when run' % (e,), 'vals': {kk: '1' for kk in syms}}
            else:
                o = 'ran'
            out['outcomes'][o] = out['outcomes'].get(o, 0) + 1
            if o != 'ran':
                return o
            L = symx.lift
            props = []
            nonlagged = [v for v, _ in parser.Endogenous]
            import math as _math
            nonfinite = [(v, k) for v in nonlagged for k in range(len(getattr(obj, v))) if isinstance(getattr(obj, v)[k], float) and not _math.isfinite(getattr(obj, v)[k])]
            if nonfinite:
                if out['viol'] is None:
                    out['viol'] = {'why': 'the generated module ran to the end and reports a non-finite value for %r (the in-process solver raises for this block)' % (nonfinite[:3],), 'vals': {kk: '1' for kk in syms}}
                return o
            for k in (1, 2):
                env = {}
                for v in nonlagged:
                    env[v] = L(getattr(obj, v)[k])
                for v, src_ in parser.Lagged:
                    env[v] = L(getattr(obj, src_.strip())[k - 1])
                for v in exo:
                    env[v] = syms['%s@%d' % (v, k)]
                for v in [x for x, _ in parser.Exogenous if x not in exo]:
                    env[v] = L(getattr(obj, v)[k])
                env['k'] = z3.RealVal(k)
                scale = z3.RealVal(1)
                for v, eqn in parser.Endogenous:
                    r = env[v] - to_z3(eqn, env)
                    props.append(z3.If(r >= 0, r, -r) <= (symx.rat(gain) + symx.rat(1e-9)) * TOL)
                for v in nonlagged:
                    if len(getattr(obj, v)) != 3:
                        props.append(z3.BoolVal(False))
            # a lagged variable the module keeps a series for (it is the source of another lag) holds its source's previous value
            for v, src_ in parser.Lagged:
                if hasattr(obj, v) and isinstance(getattr(obj, v), list):
                    if len(getattr(obj, v)) != 3:
                        props.append(z3.BoolVal(False))        # a stored series has one entry per period solved (plus k=0)
                        continue
                    for k in (1, 2):
                        props.append(L(getattr(obj, v)[k]) == L(getattr(obj, src_.strip())[k - 1]))
            # stated constants and initial conditions are the k=0 values
            for v, eqn in parser.Endogenous:
                try:
                    cval = float(eqn)
                except ValueError:
                    continue
                if v not in prev:
                    props.append(L(getattr(obj, v)[0]) == symx.rat(cval))
            for v, icv in parser.InitialConditions.items():
                if v not in prev:
                    props.append(L(getattr(obj, v)[0]) == symx.rat(float(icv)))
            # the exogenous paths the block states itself (not made symbolic here) are the module's paths, value for value
            for v, want in stated_exogenous(parser, exo).items():
                got = getattr(obj, v)
                props.append(z3.BoolVal(len(got) >= 3 and all(float(got[k]) == want[k] for k in range(3))))
            r, m = D.holds(z3.And(props))
            if r == 'sat' and out['viol'] is None:
                out['viol'] = {'why': 'an equation of the block (or a stated constant / initial condition at k=0) does not hold at the generated module`s values',
                               'vals': {kk: str(m.eval(v, model_completion=True)) for kk, v in syms.items()}}
            elif r == 'unknown':
                out['unknown'] += 1
            return o
        D.run_all(path)
        out.update(paths=D.paths, forks=D.forks, queries=D.queries, solver_s=D.solver_s, exhaustive=D.exhaustive, dunknown=D.unknown)
        # ---- table header (concrete run) - only for blocks the module can solve at all (a block it refuses with ValueError has no table)
        if not out['outcomes'].get('ran'):
            return out
        try:
            obj = mod.SFCModel()
            obj.main()
            table = obj.CreateCsvString().split('\n')
            head = table[0].split('\t')
            if len(table) != gen.MaxTime + 3:
                raise ValueError('table has %d rows, horizon %d' % (len(table) - 2, gen.MaxTime))
            nonlagged = [v for v, _ in parser.Endogenous] + [v for v, _ in parser.Exogenous]
            ok = set(nonlagged) <= set(head) <= set(nonlagged) | {'k'} and len(set(head)) == len(head) and (head[0] == 't' if 't' in nonlagged else True)   # the time-step counter k may be listed too
            out['header'] = (ok, head)
        except Exception as e:
            out['header'] = (False, 'run failed: %r' % (e,))
    finally:
        shutil.rmtree(scratch, ignore_errors=True)
    return out


REPLAY = '''
import sys, tempfile, shutil, warnings
warnings.simplefilter('ignore')
from fractions import Fraction as F
from vf.props.c20 import BLOCKS, generate, load, stated_exogenous
from sfc_models.equation_parser import EquationParser
name = %(name)r
vals = {k: float(F(v)) for k, v in %(vals)r.items()}
text, gain, prev, exo = BLOCKS[name]
scratch = tempfile.mkdtemp(prefix='sfcverif_c20r_')
try:
    try:
        gen, fname = generate(name, scratch, %(history)r); mod = load(fname); obj = mod.SFCModel()
    except Exception as e:
        print('generated module cannot be imported/instantiated:', repr(e)); sys.exit(1)
    for n in exo: setattr(obj, n, [0.0] + [vals.get('%%s@%%d' %% (n, k), 1.0) for k in (1, 2)])
    for n in prev: getattr(obj, n)[0] = vals.get(n + '@0', 1.0)
    try:
        obj.RunOneStep(); obj.RunOneStep()
    except ValueError as e:
        print('no convergence', e); sys.exit(0)
    except Exception as e:
        print('generated module raises', repr(e)); sys.exit(1)
    parser = EquationParser(); parser.ParseString(text); tol = float(parser.Err_Tolerance)
    bad = False
    import math
    for v, _ in parser.Endogenous:
        if any(isinstance(x, float) and not math.isfinite(x) for x in getattr(obj, v)): print('non-finite value reported for', v, getattr(obj, v)); bad = True
    if bad: sys.exit(1)
    for k in (1, 2):
        env = {v: getattr(obj, v)[k] for v, _ in parser.Endogenous}
        for v, s in parser.Lagged: env[v] = getattr(obj, s.strip())[k - 1]
        for v, _ in parser.Exogenous: env[v] = getattr(obj, v)[k]
        env['k'] = float(k)
        for v, e in parser.Endogenous:
            r = abs(env[v] - eval(e, {}, env))
            if r > (gain + 1e-9) * tol * (1 + 1e-9) + 1e-12: print('period', k, v, 'residual', r); bad = True
    for v, s_ in parser.Lagged:
        if hasattr(obj, v) and isinstance(getattr(obj, v), list) and len(getattr(obj, v)) != 3:
            print('stored lag', v, 'has', len(getattr(obj, v)), 'entries after 2 periods'); bad = True
        elif hasattr(obj, v) and isinstance(getattr(obj, v), list):
            for k in (1, 2):
                if getattr(obj, v)[k] != getattr(obj, s_.strip())[k - 1]: print('stored lag', v, 'at', k, '=', getattr(obj, v)[k], 'but', s_.strip(), 'at', k - 1, '=', getattr(obj, s_.strip())[k - 1]); bad = True
    for v, e in parser.Endogenous:
        try: cval = float(e)
        except ValueError: continue
        if v not in prev and getattr(obj, v)[0] != cval: print('constant', v, '=', e, 'but its k=0 value is', getattr(obj, v)[0]); bad = True
    for v, want in stated_exogenous(parser, exo).items():
        got = getattr(obj, v)
        if len(got) < 3 or any(float(got[k]) != want[k] for k in range(3)): print('exogenous', v, 'stated as', want, 'but the module uses', got); bad = True
    for v, icv in parser.InitialConditions.items():
        if v not in prev and getattr(obj, v)[0] != float(icv): print('initial condition', v, '=', icv, 'but its k=0 value is', getattr(obj, v)[0]); bad = True
    sys.exit(1 if bad else 0)
finally:
    shutil.rmtree(scratch, ignore_errors=True)
'''


def run(tier, seed):
    chk = Check('C20', tier, 'model_checking', seed)
    chk.encode(IterativeMachineGenerator.ParseString, IterativeMachineGenerator.main, IterativeMachineGenerator.GenerateEquations,
               IterativeMachineGenerator.GenerateFunction, IterativeMachineGenerator.GenerateVarDeclaration, IterativeMachineGenerator.GeneratePackVars,
               IterativeMachineGenerator.GenerateUnpackVars, IterativeMachineGenerator.GenerateFile, sfc_models.base_solver.BaseSolver.CreateCsvString)
    from vf import selfcheck
    selfcheck.run(chk)      # differential validation of the E2 value classes (trusted base) against plain floats
    names = [(n, h) for n in sorted(BLOCKS) for h in ('once', 'inspect-then-main', 'regenerate')]
    chk.bounds = {'blocks x generator histories': names, 'periods': 2, 'numeric domain': 'previous-period values and both periods of every exogenous path symbolic reals in [-100,100]',
                  'post': 'every equation of the block holds at the module`s values within gain*tolerance (undamped Jacobi with summed absolute change <= tolerance), '
                          'lags from its own previous period, exogenous from the supplied paths; Iterator body == parser equations (z3 normal forms); header: time axis '
                          'first, every non-lagged variable once'}
    chk.assumptions = ['generated modules are written to a scratch directory outside /repo and /verif and removed', 'blocks carry Err_Tolerance = 0.01 so that the '
                       'symbolic iteration stays shallow']
    chk.outside = ['blocks with more than two simultaneous variables', 'numerical comparison of the two solvers` series (follows from C02 and this within tolerance)']
    for st, o in pmap(case_run, names):
        if st != 'ok':
            chk.harness_errors.append(o[:800])
            continue
        chk.count('programs')
        chk.count('paths', o['paths']); chk.count('forks', o['forks'])
        chk.solver_s += o['solver_s']; chk.queries += o['queries']
        what = 'generated module for block %s (generator history: %s)' % (o['case'], o['history'])
        if not o['exhaustive'] or o['unknown'] or o['dunknown']:
            chk.ob('unknown', what)
        else:
            chk.ob('sat' if o['viol'] else 'unsat', what + ': imports, runs, satisfies the block', distinct=('run', o['case'], o['history']))
        if o['viol']:
            import re as _re
            mexc = _re.search(r'raises (\w+)\(', o['viol']['why'])
            key = 'k-undefined' if "name 'k' is not defined" in o['viol']['why'] else ('module:%s:raises-%s' % (o['case'], mexc.group(1)) if mexc else 'module:%s:%s' % (o['case'], o['viol']['why'][:50]))
            chk.violation(key, what + ': ' + o['viol']['why'], REPLAY % dict(name=o['case'], vals=o['viol']['vals'], history=o['history']))
        if o['iter_equiv'] is not None:
            chk.ob('sat' if o['iter_equiv'] else 'unsat', what + ': Iterator body == parser equations', distinct=('iter', o['case'], o['history']))
            if o['iter_equiv']:
                chk.violation('iterator:%s' % o['case'], what + ': Iterator differs from the parser equations: %r' % (o['iter_equiv'][:3],),
                              REPLAY % dict(name=o['case'], vals={}, history=o['history']))
        if o['header'] is not None and not o['viol']:
            chk.ob('unsat' if o['header'][0] else 'sat', what + ': table header', distinct=('header', o['case'], o['history']))
            if not o['header'][0]:
                chk.violation('header:%s:%s' % (o['case'], o['history']), what + ': table header %r' % (o['header'][1],),
                              'import sys\nfrom vf.props.c20 import case_run\no = case_run(%r)\nprint(o["header"])\nsys.exit(0 if o["header"] and o["header"][0] else 1)\n' % ((o['case'], o['history']),))
        chk.sample({'harness': what, 'paths': o['paths'], 'outcomes': o['outcomes'], 'iterator_differences': o['iter_equiv'], 'header': o['header']}, cap=10)
    chk.witness(chk.counters.get('paths', 0) > 0, 'some generated module ran')
    chk.exhaustive = True
    return chk.finish()
