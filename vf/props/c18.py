"""C18 codes are labels; embedding leaves an economy unchanged: E1 system equivalence under renaming / prefixing."""
from vf import zoo as Z
from vf.common import Check
from vf.zoolib import compare_systems, param_names
from vf.emit import emit
from vf.eqsmt import names_of, Untranslatable
from vf.par import pmap
from vf.zoo import Ctx
import sfc_models.models
import sfc_models.sector
import sfc_models.sector_definitions as sd
import sfc_models.gl_book
import sfc_models.gl_book.chapter3 as ch3
import sfc_models.gl_book.chapter4 as ch4
import sfc_models.gl_book.chapter6 as ch6

# renamings applied to the ambiguous topologies only (the alphabetical order of the two capitalist sectors flips)
AMBIG_RENAMINGS = {'R5-flip-capitalists': {'CAP': 'ZCAP', 'RENT': 'ARENT'}, 'R6-capitalists-household': {'CAP': 'OWNER', 'RENT': 'LANDLORD', 'HH': 'FOLK'}}
RENAMINGS = {
    'R1-all-but-goods': {'CA': 'ZZ', 'GOV': 'STATE', 'TRE': 'FINMIN', 'CB': 'BANK', 'HH': 'FOLK', 'CAP': 'RICH', 'BUS': 'FIRM', 'TF': 'LEVY', 'LAB': 'WORK'},
    'R2-labour-household': {'HH': 'PPL', 'LAB': 'JOBS'},
    'R3-goods-firm': {'GOOD': 'WIDGET', 'BUS': 'MAKER'},
    'R4-everything': {'CA': 'QQ', 'GOV': 'CROWN', 'TRE': 'PURSE', 'CB': 'MINT', 'HH': 'HOME', 'CAP': 'OWNER', 'BUS': 'CORP', 'TF': 'TITHE',
                      'LAB': 'TOIL', 'GOOD': 'STUFF'},
}


def rho(rename):
    def piece(s):
        return '_'.join(rename.get(t, t) for t in s.split('_'))

    def f(name):
        if '__' not in name:
            return name
        full, local = name.split('__', 1)
        return piece(full) + '__' + piece(local)
    return f


def singles():
    out = []
    for p in Z.zoo('quick'):
        if p.name in ('sim', 'simex', 'sim_caps_margin', 'sim_margin', 'sim_mm', 'sim_multi', 'pc', 'pc_exp_caps_margin', 'pc_multi'):
            out.append(p)
    return out


def work_rename(item):
    plan, rname = item
    rename = RENAMINGS[rname] if rname in RENAMINGS else AMBIG_RENAMINGS[rname]
    rec = {'plan': plan.name, 'case': 'rename:' + rname, 'obs': [], 'solver_s': 0.0, 'queries': 0, 'rename': rename}
    c0 = Z.build(plan)
    e0 = emit(c0)
    if not e0.text:
        if 'ambiguous' not in plan.features:
            rec['build_error'] = repr(e0.err)
            return rec
        # an ambiguous topology is refused: then it is refused alike under every renaming (a renamed build that goes through has picked a reading by name)
        try:
            e1 = emit(Z.build(plan, rename=rename))
            err1 = None if e1.text else e1.err
        except Exception as ex:
            err1 = ex
        same = err1 is not None and type(err1) is type(e0.err)
        rec['obs'].append({'kind': 'builds', 'what': 'refused under the original names (%s): refused alike under the renaming' % type(e0.err).__name__,
                           'verdict': 'unsat' if same else 'sat', 'structural': None if same else {'error': 'renamed build gives %r, original %r' % (err1, e0.err)}})
        return rec
    try:
        c1 = Z.build(plan, rename=rename)
    except Exception as ex:
        rec['obs'].append({'kind': 'builds', 'what': 'renamed build raises %r' % (ex,), 'verdict': 'sat', 'structural': {'error': repr(ex)}})
        return rec
    e1 = emit(c1)
    if not e1.text:
        rec['obs'].append({'kind': 'builds', 'what': 'renamed build raises %r' % (e1.err,), 'verdict': 'sat', 'structural': {'error': repr(e1.err)}})
        return rec
    params = param_names(plan, c0, e0)
    f = rho(rename)
    inv = {v: k for k, v in rename.items()}
    g = rho(inv)
    skip = set()
    if 'GOOD' in rename:
        # don't-care: the government classes hard-code DEM_GOOD / PRIM_BAL (no goods-name parameter exists)
        for key in ('CA.GOV', 'CA.TRE'):
            if key in c0.objs:
                fc = c0[key].FullCode
                skip |= {fc + '__DEM_GOOD', fc + '__PRIM_BAL', fc + '__FISCBAL'}
        skip |= {g(x) for x in list(skip)} | {f(x) for x in list(skip)}
    obs, D = compare_systems(e0.parser, e1.parser, params, mapb=g, restrict=(lambda n: n not in skip) if skip else None,
                             drop_b=skip)
    rec['obs'] = obs
    rec['solver_s'], rec['queries'] = D.solver_s, D.queries
    return rec



def embed_map(model_alone, fc):
    """name map stand-alone -> embedded, from the object API. fc: full code alone -> full code embedded.
    Only a market's per-supplier variables SUP_<supplier full code> carry a full code in their local name."""
    from sfc_models.sector import Market
    markets = {s.FullCode: s.Code for s in model_alone.GetSectors() if isinstance(s, Market)}

    def amap(name):
        if '__' not in name:
            return name
        full, local = name.split('__', 1)
        if full in markets and local.startswith('SUP_') and local[4:] != markets[full] and local[4:] in fc:
            local = 'SUP_' + fc[local[4:]]
        return fc.get(full, full) + '__' + local
    return amap

# ---- embedding -----------------------------------------------------------------------------------------------------

def eco_variants():
    return {
        'A-sim': dict(),
        'B-pc': dict(gov='tre_cb'),
        'C-simex-caps': dict(hh='hhexp', caps=True, firm='fm1'),
        'D-multi-mm': dict(firm='multi', mm=True),
    }


def eco_plan(cc, cur, kw, fed=False):
    p = Z.Plan('eco_' + cc)
    if fed:
        Z.reg_federation(p, cc, cur, place=fed if isinstance(fed, dict) else None)
    else:
        Z.economy(p, cc, cur, free_xr=False, **kw)
    return p


def embed_cases(tier):
    V = eco_variants()
    cases = []
    names = sorted(V)
    combos = [('A-sim', 'B-pc'), ('C-simex-caps', 'D-multi-mm'), ('B-pc', 'C-simex-caps'), ('A-sim', 'A-sim'), ('A-sim', 'FED'),
              ('A-sim', 'B-pc', 'C-simex-caps'), ('FED', 'B-pc', 'D-multi-mm'),
              # a federation whose tax flow / deposit market live in a region (not next to the treasury), after / before an economy sharing its codes
              ('B-pc', 'FED-REGIONPLACED'), ('FED-REGIONPLACED', 'B-pc'), ('FED', 'FED-REGIONPLACED'),
              ('FED-DEFAULTCUR', 'B-pc'), ('A-sim', 'FED-DEFAULTCUR')]
    if tier == 'thorough':
        import itertools
        combos += [c for c in itertools.permutations(names + ['FED', 'FED-REGIONPLACED'], 2) if c not in combos]
        combos += [c for c in itertools.combinations(names + ['FED'], 3) if c not in combos]
    for combo in combos:
        for ext in (False, True):
            cases.append((combo, ext))
    # the second economy declared in the middle of the first (after the first's first country, before its other countries and sectors);
    # with an ExternalSector also the external sector declared there
    for combo in (('FED-DEFAULTCUR', 'B-pc'), ('FED-DEFAULTCUR', 'A-sim'), ('FED', 'B-pc'), ('B-pc', 'FED-DEFAULTCUR')):
        for ext in (False, True):
            cases.append((combo, ext, 'second-inside-first'))
    cases.append((('FED-DEFAULTCUR',), True, 'external-inside-first'))
    # country and currency codes that contain one another (S / US / USA, D / AD / CAD): distinct codes are distinct zones
    for combo in (('A-sim', 'B-pc'), ('C-simex-caps', 'A-sim', 'D-multi-mm'), ('A-sim', 'A-sim')):
        for ext in (False, True):
            cases.append((combo, ext, 'one-after-the-other', 'nested-codes'))
    # economies of very different size and convergence speed, really solved for two periods: the series of each as when solved alone
    cases.append((('A-sim', 'A-sim'), False, 'one-after-the-other', 'scaled'))
    cases.append((('A-sim', 'A-sim', 'A-sim'), True, 'one-after-the-other', 'scaled'))
    return cases


NESTED_CODES = [('S', 'D'), ('US', 'AD'), ('USA', 'CAD')]      # every earlier country / currency code is contained in the later ones


def make_eco(i, vname, scheme='plain'):
    cc = 'E%d' % i
    cur = 'CUR%d' % i
    if scheme == 'nested-codes':
        cc, cur = NESTED_CODES[i]
    if vname == 'FED':
        return eco_plan(cc, cur, None, fed=True)
    if vname == 'FED-REGIONPLACED':
        return eco_plan(cc, cur, None, fed={'TF': 'N', 'DEP': 'S'})
    if vname == 'FED-DEFAULTCUR':
        # the federation's last region is a Region() without a currency: it takes the model's default currency
        p = Z.Plan('eco_' + cc)
        Z.reg_federation(p, cc, cur, last_region_default_currency=True)
        return p
    if scheme == 'scaled':
        # economies of very different size and speed of convergence: the first spends 1e6 a period and settles fast, the second spends 20 and settles slowly
        kw = dict(eco_variants()[vname])
        kw.update([dict(a1=0.5, a2=0.5, theta=0.4), dict(a1=0.8, a2=0.2, theta=0.15), dict(a1=0.6, a2=0.4, theta=0.2)][i])
        p = eco_plan(cc, cur, kw)
        if i == 0:
            p.post(lambda c, cc=cc: c[cc + '.GOV'].SetExogenous('DEM_GOOD', Z.exo(base=1.0e6)))
        return p
    return eco_plan(cc, cur, eco_variants()[vname])


def work_embed(case):
    combo, ext = case[:2]
    layout = case[2] if len(case) > 2 else 'one-after-the-other'
    scheme = case[3] if len(case) > 3 else 'plain'
    rec = {'plan': '+'.join(combo) + ('+EXT' if ext else '') + ('' if layout == 'one-after-the-other' else ':' + layout) + ('' if scheme == 'plain' else ':' + scheme),
           'case': 'embed', 'obs': [], 'solver_s': 0.0, 'queries': 0}
    plans = [make_eco(i, v, scheme) for i, v in enumerate(combo)]
    jplans = list(plans)
    order = None
    if layout != 'one-after-the-other':
        # joint declaration list: first economy's first country, then (external sector and) the whole second economy, then the rest of the first
        n0 = len(plans[0].decls)
        rest = sum(len(p.decls) for p in plans[1:])
        if ext:
            pe = Z.Plan('ext')
            Z.external(pe)
            jplans = jplans + [pe]
            rest += 1
        order = [0] + list(range(n0, n0 + rest)) + list(range(1, n0))
        if layout == 'second-inside-first' and ext:
            order = [n0 + rest - 1, 0] + list(range(n0, n0 + rest - 1)) + list(range(1, n0))      # external sector first, as usual
    elif ext:
        pe = Z.Plan('ext')
        Z.external(pe)
        jplans = [pe] + jplans
    cj = Z.build(jplans, order=order)
    ej = emit(cj, maxtime=2 if scheme == 'scaled' else 1)        # really solved for one period (two when the series are compared)
    if ej.text and ej.err is not None:
        rec['obs'].append({'kind': 'builds', 'what': 'joint model cannot be solved: %r' % (ej.err,), 'verdict': 'sat', 'structural': {'error': repr(ej.err)[:200]}})
    if not ej.text:
        rec['obs'].append({'kind': 'builds', 'what': 'joint build raises %r' % (ej.err,), 'verdict': 'sat', 'structural': {'error': repr(ej.err)}})
        return rec
    defined_j = ej.defined()
    for i, p in enumerate(plans):
        ca = Z.build(p)
        ea = emit(ca)
        if not ea.text:
            rec['build_error'] = repr(ea.err)
            return rec
        # name map alone -> joint, from the object API: same declaration key, full codes of both builds
        fc = {}
        for key, obj in ca.objs.items():
            if hasattr(obj, 'FullCode'):
                fc[obj.FullCode] = cj[key].FullCode

        amap = embed_map(ca.model, fc)
        mine = {amap(v) for v in ea.defined()}
        params = {amap(x) for x in param_names(p, ca, ea)}
        obs, D = compare_systems(ej.parser, ea.parser, params, mapb=amap, restrict=lambda n, mine=mine: n in mine or
                                 (('__' in n) and n.split('__')[0] in set(fc.values())))
        for ob in obs:
            ob['what'] = 'economy %d (%s): %s' % (i, combo[i], ob['what'])
            ob['eco'] = i
        rec['obs'] += obs
        rec['solver_s'] += D.solver_s
        rec['queries'] += D.queries
        if scheme == 'scaled' and ej.err is None:
            # the numbers: this economy solved alone for the same two periods
            es_ = emit(Z.build(p), maxtime=2)
            bad = None
            if es_.err is not None:
                bad = 'alone: %r' % (es_.err,)
            else:
                ta, tj = es_.model.EquationSolver.TimeSeries, cj.model.EquationSolver.TimeSeries
                diff = []
                for v in ta:
                    if v in ('k', 't'):
                        continue
                    w = amap(v)
                    if w not in tj:
                        diff.append((v, w, 'missing'))
                        continue
                    for k in range(len(ta[v])):
                        if abs(ta[v][k] - tj[w][k]) > 1e-5 * (1 + abs(ta[v][k]) + abs(tj[w][k])):
                            diff.append((w, k, ta[v][k], tj[w][k]))
                            break
                if diff:
                    bad = 'series differ from the economy alone (variable, k, alone, joint): %r' % (diff[:3],)
            rec['obs'].append({'kind': 'series-as-alone', 'what': 'economy %d (%s): every series as when solved alone (two periods)' % (i, combo[i]),
                               'verdict': 'sat' if bad else 'unsat', 'structural': {'error': bad} if bad else None, 'eco': i})
        # isolation: no equation of this economy mentions a variable of another economy
        others = {n for n in defined_j if '__' in n and n.split('__')[0] not in set(fc.values())} - {'t'}
        leaks = []
        for v, e in list(ej.parser.Endogenous) + list(ej.parser.Decoration):
            if '__' in v and v.split('__')[0] in set(fc.values()):
                try:
                    for n in names_of(e):
                        if n in others:
                            leaks.append((v, n))
                except Untranslatable:
                    pass
        rec['obs'].append({'kind': 'isolation', 'what': 'economy %d (%s) mentions no variable of another economy' % (i, combo[i]),
                           'verdict': 'sat' if leaks else 'unsat', 'structural': {'leaks': leaks[:6]} if leaks else None, 'eco': i})
    return rec


# ---- bundled builders embedded in an existing model --------------------------------------------------------------------

def builder_model(names, codes, book_exo):
    m = sfc_models.models.Model()
    for n, cc in zip(names, codes):
        B = {'SIM': ch3.SIM, 'SIMEX1': ch3.SIMEX1, 'PC': ch4.PC, 'REG': ch6.REG}[n]
        B(cc, model=m, use_book_exogenous=book_exo).build_model()
    ctx = Ctx()
    ctx.model = m
    return ctx


def work_builders(case):
    names, book_exo = case
    rec = {'plan': 'builders:' + '+'.join(names) + (':book-exogenous' if book_exo else ''), 'case': 'builders', 'obs': [], 'solver_s': 0.0, 'queries': 0}
    codes = ['K%d' % i for i in range(len(names))]
    cj = builder_model(names, codes, book_exo)
    # with the book's exogenous paths and initial stocks the joint model is really solved for two periods (a joint model that cannot be solved is a
    # failure too); without them the PC / REG portfolio equations divide by a zero wealth in every period, alone as well, so only the equations are emitted
    ej = emit(cj, maxtime=2 if book_exo else 0)
    if not ej.text or ej.err is not None:
        rec['obs'].append({'kind': 'builds', 'what': 'joint model of bundled builders fails: %r' % (ej.err,), 'verdict': 'sat',
                           'structural': {'error': repr(ej.err)[:200]}})
        if not ej.text:
            return rec
    for i, (n, cc) in enumerate(zip(names, codes)):
        ca = builder_model([n], [cc], book_exo)
        ea = emit(ca)
        if not ea.text:
            rec['build_error'] = repr(ea.err)
            return rec
        fcs = [s.FullCode for s in ca.model.GetSectors()]

        amap = embed_map(ca.model, {f_: cc + '_' + f_ for f_ in fcs})
        mine = {amap(v) for v in ea.defined()}
        # 't' is the model-level (decorated) time axis the book builders add globally - not a series of the economy
        obs, D = compare_systems(ej.parser, ea.parser, set(), mapb=amap, drop_b={'t'},
                                 restrict=lambda nme, cc=cc, mine=mine: nme != 't' and (nme in mine or nme.startswith(cc + '_')))
        for ob in obs:
            ob['what'] = 'builder %s as country %s: %s' % (n, cc, ob['what'])
        rec['obs'] += obs
        rec['solver_s'] += D.solver_s
        rec['queries'] += D.queries
    return rec


REPLAY = '''
import sys
from vf.props import c18
kind, arg = %(kind)r, %(arg)r
if kind == 'rename':
    from vf.replaylib import get_plan
    rec = c18.work_rename((get_plan(arg[0]), arg[1]))
elif kind == 'embed':
    rec = c18.work_embed(arg)
else:
    rec = c18.work_builders(arg)
bad = [ob for ob in rec['obs'] if ob['verdict'] == 'sat' and ob['what'] == %(what)r]
for ob in bad:
    print(ob['what'], ob.get('structural') or '', 'witness' if ob.get('cex') else '')
    if ob.get('cex'):
        # exact re-evaluation of the witness is done inside compare_systems' caller for C08; here the structural
        # comparison of the two real builds is the reproduction
        pass
sys.exit(1 if bad else 0)
'''


def run(tier, seed):
    chk = Check('C18', tier, 'translation_validation', seed)
    chk.encode(sd.BaseHousehold.__init__, sd.Household.__init__, sd.HouseholdWithExpectations.__init__, sd.Capitalists.__init__,
               sd.FixedMarginBusiness.__init__, sd.FixedMarginBusiness._GenerateEquations, sd.FixedMarginBusinessMultiOutput.__init__,
               sd.TaxFlow.__init__, sd.TaxFlow._GenerateEquations, sd.MoneyMarket._GenerateEquations, sd.DepositMarket._GenerateEquations,
               sfc_models.models.Model._GenerateFullSectorCodes, sfc_models.models.Model._FitIntoCurrencyZone,
               sfc_models.sector.Market._GenerateTermsLowLevel, sfc_models.gl_book.GL_book_model.__init__,
               ch3.SIM.build_model, ch3.SIMEX1.build_model, ch4.PC.build_model, ch6.REG.build_model)
    items = [(p, r) for p in singles() for r in sorted(RENAMINGS)] + [(p, r) for p in Z.ambiguous() for r in sorted(AMBIG_RENAMINGS) + ['R1-all-but-goods']]
    ecases = embed_cases(tier)
    bcases = [(('SIM', 'SIMEX1'), False), (('SIM', 'PC'), False), (('PC', 'PC'), False), (('SIM', 'SIM', 'SIMEX1'), False),
              (('SIM', 'SIMEX1'), True), (('PC', 'SIM'), True), (('REG', 'SIM'), False), (('PC', 'REG'), True), (('SIMEX1', 'PC', 'PC'), True)]
    chk.bounds = {'renaming': '%d single-zone topologies x %d injective renamings' % (len(singles()), len(RENAMINGS)),
                  'embedding': '%d joint models of 2-3 economies (with and without an unused ExternalSector)' % len(ecases),
                  'builders': '%d joint models built with the bundled SIM/SIMEX1/PC builders' % len(bcases),
                  'numeric domain': 'all reals'}
    chk.assumptions = ['renamed codes are identifier-shaped, contain no underscore and are not components of other names',
                       "don't-care: with the goods market renamed, the government's constructor-declared DEM_GOOD / PRIM_BAL are not compared "
                       '(the government classes accept no goods name; the harness declares the demand variable itself in every build)']
    chk.outside = ['renaming of money/deposit market codes', 'more than 3 embedded economies',
                   "the model-level decorated time axis 't' the book builders add with use_book_exogenous (shared by the whole model)"]

    def absorb(res, kind, args):
        for (st, rec), arg in zip(res, args):
            if st != 'ok':
                chk.harness_errors.append(rec[:800])
                continue
            chk.count('programs')
            if 'build_error' in rec:
                chk.harness_errors.append('%s: reference build fails: %s' % (rec['plan'], rec['build_error']))
                continue
            chk.solver_s += rec['solver_s']
            chk.queries += rec['queries']
            for ob in rec['obs']:
                chk.ob(ob['verdict'], '%s %s' % (rec['plan'], ob['what']), distinct=(rec['plan'], rec['case'], ob['what']))
                if ob['kind'] in ('per-equation-identical', 'system-entailment', 'isolation'):
                    chk.sample({'case': rec['case'], 'structure': rec['plan'], 'obligation': ob['what'], 'verdict': ob['verdict']}, cap=18)
                if ob['verdict'] == 'sat':
                    key = finding_key(rec, ob)
                    rarg = (arg[0].name, arg[1]) if kind == 'rename' else arg
                    chk.violation(key, '%s [%s]: %s %s' % (rec['plan'], rec['case'], ob['what'], ob.get('structural') or ''),
                                  REPLAY % dict(kind=kind, arg=rarg, what=ob['what']))
    absorb(pmap(work_rename, items), 'rename', items)
    absorb(pmap(work_embed, ecases), 'embed', ecases)
    absorb(pmap(work_builders, bcases), 'builders', bcases)
    chk.exhaustive = True
    return chk.finish()


def finding_key(rec, ob):
    st = ob.get('structural') or {}
    names = []
    if isinstance(st, dict):
        names = st.get('only_first', []) + st.get('only_second', []) + st.get('different', [])
        if 'error' in st:
            return '%s:%s:%s' % (rec['case'], rec['plan'], st['error'][:80])
        if 'leaks' in st:
            names = [a for a, b in st['leaks']]
    tag = sorted({n.split('__')[-1] for n in names})[:3]
    return '%s:%s:%s:%s' % (rec['case'], rec['plan'], ob['kind'], ','.join(tag) or (ob.get('var') or '').split('__')[-1])
