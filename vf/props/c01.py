"""C01 stock-flow consistency per currency: E1, one-period induction over the topology zoo."""
import time
import zlib

import z3

from vf import zoo as Z
from vf.common import Check
from vf.emit import emit, xr_names
from vf.eqsmt import System, Decider, literal_params, val_fraction, Untranslatable, validate_translator, names_of
from vf.par import pmap
import sfc_models.models
import sfc_models.sector
import sfc_models.sector_definitions
import sfc_models.external
import sfc_models.equation

TIER = 'quick'
XCHECK = [3]


def full_model(model, S):
    out = {}
    for (name, per), v in S.V.items():
        out['%s@%s' % (name, per)] = str(val_fraction(model.eval(v, model_completion=True)))
    return out


def setup(plan, order=None):
    ctx = Z.build(plan, order=order)
    em = emit(ctx)
    return ctx, em


def param_names(plan, ctx, em):
    names = []
    for key, local in plan.params:
        if key in ctx.objs and local in ctx[key].EquationBlock:
            names.append(ctx[key].GetVariableName(local))
    return literal_params(em.parser, names)


def work(item):
    plan, order, tag = item
    t0 = time.time()
    rec = {'plan': plan.name, 'obs': [], 'features': sorted(plan.features), 'order': order, 'order_tag': tag}
    ctx, em = setup(plan, order)
    if not em.text:
        rec['build_error'] = repr(em.err)
        return rec
    if em.err is not None:
        rec['solve_error'] = repr(em.err)[:200]
    params = param_names(plan, ctx, em)
    S = System(em.parser, params)
    try:
        cons = S.period('a') + S.period('b', 'a')
    except Untranslatable as e:
        rec['untranslatable'] = str(e)
        return rec
    pos = []
    for x in xr_names(ctx.model):
        pos += [S.var(x, 'a') > 0, S.var(x, 'b') > 0]
    D = Decider(timeout_ms=20000)
    r0, _ = D.decide(cons + pos, ladder=False)
    if r0 != 'sat':
        # the default tactic can time out on the largest topologies: the satisfiability witness may come from the nlsat rung, with more time
        r0, _ = D.decide(cons + pos, ladder=True, timeout_ms=120000)
    rec['reach'] = r0
    rec['n_eq'] = len(S.endo)
    rec['params'] = sorted(params)
    defined = em.defined()
    for cz in ctx.model.CurrencyZoneList:
        secs = [s for s in cz.GetSectors() if s.HasF]
        if not secs:
            continue
        tot = z3.RealVal(0)
        for s in secs:
            f = s.GetVariableName('F')
            tot = tot + S.var(f, 'b') - S.var(f, 'a')
        net = None
        if ctx.model.ExternalSector is not None:
            fx = ctx.model.ExternalSector['FX']
            if 'NET_' + cz.Currency in fx.EquationBlock:
                net = fx.GetVariableName('NET_' + cz.Currency)
                tot = tot + S.var(net, 'b')
        v, m = D.decide(cons + pos + [tot != 0])
        if v in ('sat', 'unsat') and (zlib.crc32((plan.name + tag + cz.Currency).encode()) % XCHECK[0]) == 0:
            from vf.eqsmt import cvc5_check
            c5 = cvc5_check(cons + pos + [tot != 0], 8000)
            rec['cvc5_crosschecked'] = rec.get('cvc5_crosschecked', 0) + 1
            if c5 in ('sat', 'unsat') and c5 != v:
                rec.setdefault('cvc5_disagreements', []).append('z3 %s vs cvc5 %s, zone %s' % (v, c5, cz.Currency))
        ob = {'kind': 'sfc-induction', 'zone': cz.Currency, 'sectors': [s.FullCode for s in secs], 'net': net, 'verdict': v}
        if v == 'sat':
            v2, m2 = D.decide(cons + pos + [z3.Or(tot > 1, tot < -1)], ladder=False)
            if v2 == 'sat':
                m = m2
            ob['cex'] = full_model(m, S)
            ob['tot'] = str(val_fraction(m.eval(tot, model_completion=True)))
        rec['obs'].append(ob)
        # base case k=1: no initial stocks imposed -> every lagged source that is not exogenous starts at 0
        if not em.parser.InitialConditions:
            exo = {x for x, _ in em.parser.Exogenous}
            base = []
            for lv, src in S.lagged:
                if src not in exo:
                    base.append(S.var(src, 'a') == 0)
            # period a is then *not* asserted as a model-consistent period (k=0 values are imposed, not solved)
            cons_b = S.period('b', 'a')
            posb = [c for c in pos]
            tot1 = z3.RealVal(0)
            for s in secs:
                f = s.GetVariableName('F')
                tot1 = tot1 + S.var(f, 'b') - S.var(f, 'a')
            if net:
                tot1 = tot1 + S.var(net, 'b')
            # F(0)=0 for every sector (its LAG_F source) is part of `base`
            v, m = D.decide(cons_b + base + posb + [tot1 != 0])
            ob = {'kind': 'sfc-base-k1', 'zone': cz.Currency, 'verdict': v, 'net': net, 'sectors': [s.FullCode for s in secs]}
            if v == 'sat':
                ob['cex'] = full_model(m, S)
                ob['tot'] = str(val_fraction(m.eval(tot1, model_completion=True)))
            rec['obs'].append(ob)
    rec['rungs'] = D.rungs
    rec['solver_s'] = D.solver_s
    rec['queries'] = D.queries
    rec['wall'] = round(time.time() - t0, 2)
    rec['sample_eq'] = [(v, e) for v, e in S.endo if v.endswith('__F')][:2]
    rec['tv'] = [(e, names_of(e)) for _, e in S.endo[:40]]
    return rec


REPLAY = '''
import sys
from fractions import Fraction as F
from vf.replaylib import get_plan, check_period
from vf import zoo as Z
from vf.emit import emit
plan = get_plan(%(plan)r)
ctx = Z.build(plan, order=%(order)r)
em = emit(ctx)
vals = %(cex)r
kind = %(kind)r
params = {k[:-2]: F(v) for k, v in vals.items() if k.endswith('@*')}
per = lambda p: {k[:-2]: F(v) for k, v in vals.items() if k.endswith('@' + p)}
a, b = per('a'), per('b')
bad = check_period(em.parser, b, a, params)
if kind == 'sfc-induction':
    bad += check_period(em.parser, a, None, params)
if bad:
    print('witness does not satisfy the emitted equations:', bad[:5]); sys.exit(0)
secs = %(sectors)r
tot = sum(b[s + '__F'] - a[s + '__F'] for s in secs)
net = %(net)r
if net: tot += b[net]
print('zone %(zone)s: sum of changes in financial assets (+ FX position) =', float(tot), 'at a state satisfying every emitted equation')
sys.exit(1 if tot != 0 else 0)
'''


def run(tier, seed):
    chk = Check('C01', tier, 'translation_validation', seed)
    chk.encode(sfc_models.models.Model.main, sfc_models.models.Model._GenerateRegisteredCashFlows,
               sfc_models.sector.Sector.AddCashFlow, sfc_models.sector.Market._GenerateTermsLowLevel,
               sfc_models.sector.Market._GenerateMultiSupply, sfc_models.sector_definitions.TaxFlow._GenerateEquations,
               sfc_models.sector_definitions.DepositMarket._GenerateEquations,
               sfc_models.sector_definitions.MoneyMarket._GenerateEquations,
               sfc_models.sector_definitions.FixedMarginBusiness._GenerateEquations,
               sfc_models.sector_definitions.CentralBank._GenerateEquations,
               sfc_models.external.ForexTransations._SendMoney, sfc_models.external.ForexTransations._ReceiveMoney,
               sfc_models.external.InternationalGold.SetGoldPurchases, sfc_models.equation.Equation.AddTerm,
               sfc_models.equation.Term.__init__)
    XCHECK[0] = 12 if tier == 'quick' else 3
    plans = Z.zoo(tier)
    chk.bounds = {'topologies': len(plans), 'periods': 'one-period induction (all k>=2) + base case k=1 when no initial condition is imposed',
                  'numeric domain': 'all reals: exogenous values of both periods, lagged state of the earlier period, declared literal parameters'}
    chk.assumptions = ['exchange-rate variables > 0 in both periods',
                       'reals, z3 total division (no divisor-nonzero assumption is needed for this identity)',
                       'framework-structural constants (numeraire rate, margins literals) stay as emitted; only parameters the '
                       'harness passed in, exogenous and lagged values are free']
    chk.outside = ['hand-written sector subclasses', 'topologies outside the zoo grammar (see DESIGN.md)',
                   'flows whose amount uses functions other than + - * /']
    from vf.zoolib import plan_orders
    res = pmap(work, plan_orders(plans, tier))
    tv = []
    for st, rec in res:
        if st != 'ok':
            chk.harness_errors.append('worker failed: ' + rec[:500])
            continue
        chk.count('programs')
        if 'build_error' in rec:
            chk.harness_errors.append('topology %s does not build: %s' % (rec['plan'], rec['build_error']))
            continue
        if 'untranslatable' in rec:
            chk.ob('unknown', '%s: %s' % (rec['plan'], rec['untranslatable']))
            continue
        chk.witness(rec['reach'] == 'sat', 'system of %s satisfiable' % rec['plan'])
        tv.extend(rec['tv'])
        for ob in rec['obs']:
            chk.ob(ob['verdict'], '%s %s %s' % (rec['plan'], ob['kind'], ob['zone']), distinct=(rec['plan'], rec['order_tag'], ob['kind'], ob['zone']))
            chk.sample({'topology': rec['plan'], 'declaration_order': rec['order_tag'], 'features': rec['features'], 'obligation': ob['kind'], 'zone': ob['zone'],
                        'sectors': ob['sectors'], 'fx_position': ob['net'], 'equations': rec['n_eq'],
                        'freed_parameters': rec['params'], 'verdict': ob['verdict'], 'F_equation_sample': rec['sample_eq']})
            if ob['verdict'] == 'sat':
                key = '%s:%s:%s:%s' % (rec['plan'], rec['order_tag'], ob['kind'], ob['zone'])
                chk.violation(key, 'money created/destroyed in zone %s of topology %s (declaration order: %s): sum dF + FX = %s' % (ob['zone'], rec['plan'], rec['order_tag'], ob.get('tot')),
                              REPLAY % dict(plan=rec['plan'], cex=ob['cex'], kind=ob['kind'], sectors=ob['sectors'], net=ob['net'], zone=ob['zone'], order=rec['order']))
        for k, v in rec.get('rungs', {}).items():
            chk.count('rung:' + k, v)
        chk.solver_s += rec.get('solver_s', 0.0)
        chk.queries += rec.get('queries', 0)
        chk.count('cvc5_crosschecked', rec.get('cvc5_crosschecked', 0))
        for d_ in rec.get('cvc5_disagreements', []):
            chk.harness_errors.append('solver disagreement in %s: %s' % (rec['plan'], d_))
    validate_translator(chk, tv[:400])
    chk.exhaustive = True
    chk.extra['explanation'] = 'every topology of the zoo x every currency zone: entailment system |= sum dF + NET = 0 decided by z3 over the reals'
    return chk.finish()
