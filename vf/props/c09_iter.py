"""C09 (second clause): the bundled hand-coded iterative SIM agrees with the closed form. E2 on the real RunStep."""
import z3

from vf import symx
from vf.symx import Driver, SymReal
from sfc_models.gl_book.model_SIM_iterative import ModelSIMiterative


def grid(tier):
    if tier == 'quick':
        return [(0.2, 0.6, 0.4), (0.1, 0.9, 0.1), (0.35, 0.5, 0.25)]
    out = []
    for th in (0.1, 0.2, 0.35):
        for a1 in (0.5, 0.6, 0.9):
            for a2 in (0.1, 0.25, 0.4):
                out.append((th, a1, a2))
    return out


def one_grid_point(th, a1, a2, box=100, method='RunStep'):
    D = Driver(timeout_ms=10000, max_paths=5000, max_seconds=120)
    g, h = z3.Real('G'), z3.Real('H_lag')
    D.assume(g >= 0, g <= box, h >= -box, h <= box)
    viol = []
    stats = {'solved': 0}

    def path():
        m = ModelSIMiterative()
        m.theta, m.alpha1, m.alpha2 = th, a1, a2
        m.G = [0.0, SymReal(g)]
        m.H = [SymReal(h)]
        getattr(m, method)()
        Y, T, YD, C, H = [symx.lift(x[-1]) for x in (m.Y, m.tax, m.YD, m.C, m.H)]
        TH, A1, A2 = symx.rat(th), symx.rat(a1), symx.rat(a2)
        c = A1 * (1 - TH)
        ystar = (g + A2 * h) / (1 - c)
        tol = symx.rat(0.001) / (1 - c)
        if method == 'RunStep':
            post = z3.And(Y - ystar <= tol, ystar - Y <= tol, T == TH * Y, YD == Y - T, C == A1 * YD + A2 * h, H == h + g - T)
        else:
            # RunMethod2 (Jacobi on the whole vector, summed absolute change <= .001): every reported quantity is
            # within the summed-change tolerance amplified by 1/(1-c) of its closed-form value
            tol2 = symx.rat(0.001) * 3 / (1 - c)
            post = z3.And(Y - ystar <= tol2, ystar - Y <= tol2)
        r, mdl = D.holds(post)
        stats['solved'] += 1
        if r != 'unsat':
            viol.append((r, None if mdl is None else {'G': str(mdl.eval(g, model_completion=True)), 'H': str(mdl.eval(h, model_completion=True))}))
        return 'solved'
    res = D.run_all(path)
    return D, res, viol


REPLAY = '''
import sys
from fractions import Fraction as F
from sfc_models.gl_book.model_SIM_iterative import ModelSIMiterative
th, a1, a2 = %(th)r, %(a1)r, %(a2)r
g, h = float(F(%(G)r)), float(F(%(H)r))
m = ModelSIMiterative(); m.theta, m.alpha1, m.alpha2 = th, a1, a2
m.G = [0.0, g]; m.H = [h]
m.RunStep()
c = a1 * (1 - th); ystar = (g + a2 * h) / (1 - c)
Y, T, YD, C, H = m.Y[-1], m.tax[-1], m.YD[-1], m.C[-1], m.H[-1]
bad = abs(Y - ystar) > 0.001 / (1 - c) * (1 + 1e-9) + 1e-12 or abs(T - th * Y) > 1e-9 or abs(YD - (Y - T)) > 1e-9 \\
    or abs(C - (a1 * YD + a2 * h)) > 1e-9 or abs(H - (h + g - T)) > 1e-9
print('Y', Y, 'closed form', ystar, 'T', T, 'YD', YD, 'C', C, 'H', H)
sys.exit(1 if bad else 0)
'''


def run_into(chk, tier):
    chk.encode(ModelSIMiterative.RunStep)
    box = 100
    for th, a1, a2 in grid(tier):
        D, res, viol = one_grid_point(th, a1, a2, box)
        chk.count('paths', D.paths)
        chk.count('forks', D.forks)
        chk.solver_s += D.solver_s
        chk.queries += D.queries
        what = 'hand-coded SIM RunStep theta=%s a1=%s a2=%s: all paths G in [0,%d], H(-1) in [-%d,%d]' % (th, a1, a2, box, box, box)
        if not D.exhaustive or D.unknown:
            chk.ob('unknown', what + ' (exploration incomplete: paths=%d unknown=%d)' % (D.paths, D.unknown))
        else:
            bad = [v for v in viol if v[0] == 'sat']
            chk.ob('sat' if bad else ('unknown' if viol else 'unsat'), what, distinct=('iter', th, a1, a2))
            for r, mdl in bad[:1]:
                chk.violation('iterSIM:%s:%s:%s' % (th, a1, a2), what + ' deviates from the closed form at %s' % mdl,
                              REPLAY % dict(th=th, a1=a1, a2=a2, G=mdl['G'], H=mdl['H']))
        chk.witness(any(o == 'solved' for _, o in res), 'RunStep returns on some path')
        chk.sample({'harness': 'E2 ModelSIMiterative.RunStep', 'parameters': (th, a1, a2), 'paths': D.paths, 'forks': D.forks,
                    'post': '|Y - (G+a2*H)/(1-a1(1-theta))| <= 0.001/(1-a1(1-theta)) and T=theta*Y, YD=Y-T, C=a1*YD+a2*H(-1), H=H(-1)+G-T exactly',
                    'exhaustive': D.exhaustive}, cap=24)
    chk.bounds['iterative SIM'] = 'G in [0,100], H(-1) in [-100,100], parameter grid %d points, exact reals' % len(grid(tier))
