"""C11 unsolvable or invalid input fails loudly and in bounded work.
E2 (symbolic values through the unmodified solver) for non-convergence / evaluation errors / contraction => success;
enumerated outcome checks for invalid declarations (no numeric input there)."""
import os
import builtins
import keyword
import math

import z3

from vf import symx
from vf.symx import Driver, SymReal
from vf.common import Check
from vf.par import pmap
from vf.props.c15 import StubRender
from sfc_models.equation_solver import EquationSolver, ConvergenceError
import sfc_models.equation_parser
import sfc_models.utils
import sfc_models.models
import sfc_models.sector

BLOCKS = {
    'expansive':          ("x = 2*x + G", ['x'], ['G']),
    'oscillating-growing': ("x = -1.5*x + G", ['x'], ['G']),
    'oscillating-pure':   ("x = -1*x + G", ['x'], ['G']),
    'contracting':        ("x = 0.5*x + G", ['x'], ['G']),
    'quadratic':          ("x = x*x + G", ['x'], ['G']),
    'two-expansive':      ("x = 1.5*y + G\ny = x - 1", ['x', 'y'], ['G']),
    'div-persistent':     ("x = 1/Y\nd = x + 1", ['x'], ['Y']),
    'div-transient':      ("x = 1/y\ny = 0.5*y + 1", ['x', 'y'], []),
    'deco-after-fail':    ("x = 3*x + G\nd = 2*x\nL = d(k-1)", ['x'], ['G']),
    'div-persistent-expansive': ("x = 1/Y\ny = 2*y + 1 + 0*x", ['x', 'y'], ['Y']),
    'div-persistent-oscillating': ("x = 1/Y + 0*y\ny = -1*y + G + 0*x", ['x', 'y'], ['Y', 'G']),
    'div-persistent-decorative': ("x = 1/Y\ny = 2*y + 1", ['x', 'y'], ['Y']),
    'div-persistent-first-of-two': ("x = 1/Y\ny = 0.5*y + 1 + 0*x", ['x', 'y'], ['Y']),
    'div-persistent-middle': ("a = 0.5*a + 1 + 0*x\nx = 1/Y + 0*y\ny = 0.25*y + 2 + 0*a", ['a', 'x', 'y'], ['Y']),
}


# blocks whose equations divide by an exogenous input: a period in which it is zero cannot be solved
DIVISORS = {'div-persistent': ['Y'], 'div-persistent-expansive': ['Y'], 'div-persistent-oscillating': ['Y'], 'div-persistent-decorative': ['Y'],
            'div-persistent-first-of-two': ['Y'], 'div-persistent-middle': ['Y']}


def nc_case(case):
    name, cap, tol = case
    text, k0, exo = BLOCKS[name]
    full = text + '\nErr_Tolerance = %r\nMaxTime = 2' % tol
    D = Driver(timeout_ms=15000, max_paths=20000, max_seconds=BUDGET[0], max_depth=60 * (cap + 4) * 2)
    syms = {}
    for n in k0:
        syms[n + '@0'] = z3.Real(n + '_0')
    for n in exo:
        for k in (1, 2):
            syms['%s@%d' % (n, k)] = z3.Real('%s_%d' % (n, k))
    for v in syms.values():
        D.assume(v >= -100, v <= 100)
    out = {'case': case, 'viol': None, 'unknown': 0, 'outcomes': {}}

    def path():
        es = EquationSolver(full, run_equation_reduction=True)
        es.MaxIterations = cap
        for n in exo:
            es.Parser.Exogenous.append((n, [0.0] + [SymReal(syms['%s@%d' % (n, k)]) for k in (1, 2)]))
        es.ExtractVariableList()
        es.SetInitialConditions()
        for n in k0:
            es.TimeSeries[n][0] = SymReal(syms[n + '@0'])
        failing = None
        snap = None
        o = 'solved'
        for step in (1, 2):
            es.TraceStep = step
            snap = {v: list(es.TimeSeries[v]) for v in es.TimeSeries}
            try:
                es.SolveStep(step)
            except symx.Budget:
                # the depth budget of one path is far above what cap+1 sweeps can use: a path that exhausts it is iterating
                # beyond the cap
                sweeps = len(es.TimeSeriesStepTrace['iteration']) if 'iteration' in es.TimeSeriesStepTrace else 0
                if sweeps > cap + 1 and out['viol'] is None:
                    r, m = D.holds(z3.BoolVal(False))
                    out['viol'] = {'why': 'still iterating after %d sweeps, cap+1 = %d (runaway iteration)' % (sweeps, cap + 1),
                                   'vals': {kk: str(m.eval(v, model_completion=True)) for kk, v in syms.items()} if m is not None else None}
                    out['runaway'] = True
                    raise symx.PathEnd('runaway')
                raise
            except ConvergenceError:
                o, failing = 'ConvergenceError', step
            except ValueError:
                o, failing = 'ValueError', step
            except Exception as ex:
                o, failing = 'other:' + type(ex).__name__, step
            if failing:
                break
        out['outcomes'][o] = out['outcomes'].get(o, 0) + 1
        ts = es.TimeSeries
        problem = None
        if o.startswith('other:'):
            problem = 'solving raised %s instead of a convergence/value error' % o[6:]
        elif failing:
            sweeps = len(es.TimeSeriesStepTrace['iteration']) if 'iteration' in es.TimeSeriesStepTrace else 0
            if sweeps > cap + 1:
                problem = 'failed after %d sweeps, cap+1 = %d' % (sweeps, cap + 1)
            exo_names = {v for v, _ in es.Parser.Exogenous}
            lens = {v: len(ts[v]) for v in ts if v not in exo_names}      # exogenous paths are inputs of full length
            if len(set(lens.values())) != 1 or set(lens.values()) != {failing}:
                problem = 'after the failure at step %d the series lengths are %r' % (failing, lens)
            else:
                for v in lens:
                    if any(a is not b and not (isinstance(a, float) and a == b) for a, b in zip(ts[v], snap[v])):
                        problem = 'already-solved values of %s changed' % v
        else:
            lens = {v: len(ts[v]) for v in ts}
            if set(lens.values()) != {3}:
                problem = 'after success the series lengths are %r' % (lens,)
            for dn in DIVISORS.get(name, []):
                for kk_ in (1, 2):
                    r, m = D.holds(syms['%s@%d' % (dn, kk_)] != 0)
                    if r == 'sat' and out['viol'] is None:
                        out['viol'] = {'why': 'both periods reported as solved although the divisor %s is zero in period %d (the arithmetic error persists)' % (dn, kk_),
                                       'vals': {kk: str(m.eval(v, model_completion=True)) for kk, v in syms.items()}}
        if problem and out['viol'] is None:
            r, m = D.holds(z3.BoolVal(False))
            out['viol'] = {'why': problem, 'vals': {kk: str(m.eval(v, model_completion=True)) for kk, v in syms.items()} if m is not None else None}
        return o
    with StubRender():
        D.run_all(path)
    out.update(paths=D.paths, forks=D.forks, queries=D.queries, solver_s=D.solver_s, exhaustive=D.exhaustive, dunknown=D.unknown)
    return out


def contraction_case(case):
    """||A||inf <= 0.8  =>  solved within the DEFAULT iteration cap (400), whatever the start value and constant."""
    a, tol, box = case[:3]
    with_fn = len(case) > 3 and case[3] == 'fn'
    # with_fn: the same map written through a user function registered with AddFunction (idf(v) = v)
    full = ("x = %r*idf(x) + B\nErr_Tolerance = %r\nMaxTime = 1" if with_fn else "x = %r*x + B\nErr_Tolerance = %r\nMaxTime = 1") % (a, tol)
    D = Driver(timeout_ms=20000, max_paths=500000, max_seconds=BUDGET[1], abs_fork=True)
    b, x0 = z3.Real('B'), z3.Real('x0')
    D.assume(b >= -box, b <= box, x0 >= -box, x0 <= box)
    out = {'case': case, 'viol': None, 'unknown': 0, 'outcomes': {}, 'max_sweeps': 0}

    def path():
        es = EquationSolver(full, run_equation_reduction=True)
        if with_fn:
            es.AddFunction('idf', lambda v: v)
        es.Parser.Exogenous.append(('B', [0.0, SymReal(b)]))
        es.ExtractVariableList()
        es.SetInitialConditions()
        es.TimeSeries['x'][0] = SymReal(x0)
        es.TraceStep = 1
        try:
            es.SolveStep(1)
            o = 'solved'
        except ConvergenceError:
            o = 'ConvergenceError'
        except ValueError:
            o = 'ValueError'
        except Exception as e:         # anything else is not even one of the documented errors
            o = 'crash:' + type(e).__name__
        out['outcomes'][o] = out['outcomes'].get(o, 0) + 1
        out['max_sweeps'] = max(out['max_sweeps'], len(es.TimeSeriesStepTrace['iteration']))
        if o != 'solved' and out['viol'] is None:
            r, m = D.holds(z3.BoolVal(False))
            out['viol'] = {'why': 'contraction with factor %r not solved within the default cap: %s' % (abs(a), o),
                           'vals': {'B': str(m.eval(b, model_completion=True)), 'x0': str(m.eval(x0, model_completion=True))} if m is not None else None}
        return o
    with StubRender():
        D.run_all(path)
    out.update(paths=D.paths, forks=D.forks, queries=D.queries, solver_s=D.solver_s, exhaustive=D.exhaustive, dunknown=D.unknown)
    return out


BUDGET = [60, 100]


def nc_cases(tier):
    out = []
    for name in BLOCKS:
        for cap in ((0, 1, 3) if tier == 'quick' else (0, 1, 2, 3, 4, 6)):
            if name in ('quadratic', 'two-expansive', 'deco-after-fail') and cap > (1 if tier == 'quick' else 3):
                continue
            out.append((name, cap, 1e-3))
    return out


def contraction_cases(tier):
    if tier == 'quick':
        return [(-0.8, 1e-3, 1000), (0.5, 1e-2, 100), (-0.5, 1e-3, 1000), (0.25, 1e-3, 100), (-0.5, 1e-3, 100, 'fn')]
    return [(a, tol, 1000) for a in (0.8, -0.8, 0.5, -0.3, 0.79) for tol in (1e-3, 1e-5, 1e-8)] + [(-0.8, 1e-3, 1000, 'fn'), (0.5, 1e-5, 1000, 'fn')]


# ---- enumerated invalid declarations ---------------------------------------------------------------------------------------------

def reserved_names():
    """keywords, builtins, math names, k / self / None - computed here, not by sfc_models.utils."""
    return sorted(set(keyword.kwlist) | set(dir(builtins)) | set(dir(math)) | {'k', 'self', 'None'})


def invalid_declarations():
    from sfc_models.models import Model, Country
    from sfc_models.sector import Sector, Market
    from sfc_models.utils import LogicError
    import sfc_models.sector_definitions as sd
    results = []

    def expect(label, fn, solver_of=None):
        try:
            obj = fn()
        except Exception as e:
            produced = False
            if solver_of is not None:
                try:
                    ts = solver_of().TimeSeries
                    produced = any(len(v) > 1 for v in ts.values())
                except Exception:
                    produced = False
            results.append((label, type(e).__name__, not produced))
            return
        results.append((label, None, False))
    for nm in reserved_names():
        if not nm.isidentifier() and nm not in keyword.kwlist:
            continue
        box = {}

        for red in (True, False):
            def mk(nm=nm, red=red):
                es = EquationSolver(run_equation_reduction=red)
                box['es'] = es
                es.ParseString('%s = 1.0\nx = 2\nMaxTime = 1' % nm)
                es.SolveEquation()
            expect('variable-name:' + nm + ('' if red else ':reduction-off'), mk, lambda: box['es'])
    for red in (True, False):
        for kind, text in (('simultaneous', 'x = 1.\nx = 2.\ny = x + y/2\nMaxTime = 2'), ('lagged', 'y = 0.5*y + 1\nL = y(k-1)\nL = y(k-1)\nMaxTime = 2'),
                           ('exogenous', 'y = 0.5*y + G\nMaxTime = 2\nexogenous\nG = [1., 2., 3.]\nG = [2., 2., 2.]'), ('mixed', 'y = 0.5*y + 1\nz = y(k-1)\nz = y + 1\nMaxTime = 2')):
            box = {}

            def mk(text=text, red=red):
                es = EquationSolver(run_equation_reduction=red)
                box['es'] = es
                es.ParseString(text)
                es.SolveEquation()
            expect('variable-defined-twice:%s%s' % (kind, '' if red else ':reduction-off'), mk, lambda: box['es'])
    bad_tokens = sorted((set(keyword.kwlist) | set(dir(builtins)) | {'self', 'None'}) - {'float', 'max', 'min', 'sum', 'pow', 'abs', 'round'})
    for tok in bad_tokens:
        if not tok.isidentifier():
            continue
        box = {}

        for red in (True, False):
            def mk(tok=tok, red=red):
                es = EquationSolver(run_equation_reduction=red)
                box['es'] = es
                es.ParseString('x = 2 + %s\nMaxTime = 1' % tok)
                es.SolveEquation()
            expect('token:' + tok + ('' if red else ':reduction-off'), mk, lambda: box['es'])

    # model-level declarations: every scenario is a sequence of public-API calls with a tick between consecutive calls, so that it can be
    # replayed with another model being started / built / solved at any point of its construction (the library documents coexisting models)
    def other_bare():
        Model()

    def other_half_built():
        m2 = Model(); c2 = Country(m2, 'ZZ', currency='ZED'); Sector(c2, 'S1'); Sector(c2, 'S2')

    def other_solved():
        m2 = Model(); c2 = Country(m2, 'ZZ'); s2 = Sector(c2, 'S'); s2.AddVariable('Q', 'q', '0.5*Q + 1'); m2.MaxTime = 1; m2.main()
    INTERRUPT = {'other-model-started': other_bare, 'other-model-half-built': other_half_built, 'other-model-built-and-solved': other_solved}

    def dup_country(tick, box):
        m = Model(); tick(); Country(m, 'CA'); tick(); Country(m, 'CA')

    def dup_sector(tick, box):
        m = Model(); tick(); c = Country(m, 'CA'); tick(); Sector(c, 'HH'); tick(); Sector(c, 'HH')

    def dup_sector_kinds(tick, box):
        m = Model(); tick(); c = Country(m, 'CA'); tick(); sd.Household(c, 'X'); tick(); Market(c, 'X')

    def underscores_local(tick, box):
        m = Model(); tick(); c = Country(m, 'CA'); tick(); s = Sector(c, 'HH'); tick(); s.AddVariable('A__B', 'x', '1.0')

    def underscores_code(tick, box):
        m = Model(); box['m'] = m; tick(); c = Country(m, 'CA'); tick(); s = Sector(c, 'H__H'); tick(); s.AddVariable('A', 'x', '1.0'); m.MaxTime = 1; tick(); m.main()

    def no_supplier(tick, box):
        m = Model(); box['m'] = m; tick(); c = Country(m, 'CA'); tick(); sd.ConsolidatedGovernment(c, 'GOV'); tick(); Market(c, 'GOOD'); m.MaxTime = 1; tick(); m.main()

    def ambiguous(tick, box):
        m = Model(); box['m'] = m; tick(); c = Country(m, 'CA'); tick(); sd.ConsolidatedGovernment(c, 'GOV'); tick(); sd.Household(c, 'HH'); tick()
        sd.FixedMarginBusiness(c, 'B1'); tick(); sd.FixedMarginBusiness(c, 'B2'); tick(); sd.TaxFlow(c, 'TF', taxrate=.2); tick(); Market(c, 'LAB'); tick(); Market(c, 'GOOD')
        m.MaxTime = 1; tick(); m.main()

    def ambiguous_labour(tick, box):
        m = Model(); box['m'] = m; tick(); c = Country(m, 'CA'); tick(); sd.Household(c, 'HW'); tick(); sd.Household(c, 'HR'); tick()
        sd.ConsolidatedGovernment(c, 'GOV'); tick(); sd.FixedMarginBusiness(c, 'BUS'); tick(); sd.TaxFlow(c, 'TF', taxrate=.2); tick(); Market(c, 'GOOD'); tick(); Market(c, 'LAB')
        m.MaxTime = 1; tick(); m.main()

    def cross_no_ext(tick, box):
        m = Model(); box['m'] = m; tick(); a = Country(m, 'AA', currency='A'); tick(); b = Country(m, 'BB', currency='B'); tick()
        s1 = Sector(a, 'S'); tick(); s2 = Sector(b, 'S'); tick(); s1.AddVariable('GIFT', 'g', '1.0'); tick(); m.RegisterCashFlow(s1, s2, 'GIFT'); m.MaxTime = 1; tick(); m.main()

    def cross_supplier_no_ext(tick, box):
        m = Model(); box['m'] = m; tick(); a = Country(m, 'AA', currency='A'); tick(); b = Country(m, 'BB', currency='B'); tick()
        sd.ConsolidatedGovernment(a, 'GOV'); tick(); sd.Household(a, 'HH'); tick(); sd.TaxFlow(a, 'TF', taxrate=.2); tick(); bus = sd.FixedMarginBusiness(b, 'BUS'); tick()
        Market(b, 'LAB'); tick(); sd.Household(b, 'HH'); tick(); g = Market(a, 'GOOD'); tick(); Market(a, 'LAB'); tick(); g.AddSupplier(bus); m.MaxTime = 1; tick(); m.main()

    def money_no_issuer(tick, box):
        m = Model(); box['m'] = m; tick(); c = Country(m, 'CA'); tick(); sd.Household(c, 'HH'); tick(); sd.FixedMarginBusiness(c, 'BUS'); tick(); Market(c, 'GOOD'); tick()
        Market(c, 'LAB'); tick(); sd.MoneyMarket(c); m.AddInitialCondition('HH', 'F', 100.); m.MaxTime = 1; tick(); m.main()

    def deposit_no_issuer(tick, box):
        m = Model(); box['m'] = m; tick(); c = Country(m, 'CA'); tick(); sd.ConsolidatedGovernment(c, 'GOV'); tick(); h = sd.Household(c, 'HH'); tick(); sd.FixedMarginBusiness(c, 'BUS'); tick()
        sd.TaxFlow(c, 'TF', taxrate=.2); tick(); Market(c, 'GOOD'); tick(); Market(c, 'LAB'); tick(); sd.MoneyMarket(c); tick(); sd.DepositMarket(c, issuer_short_code='TRE'); tick()
        h.GenerateAssetWeighting([('DEP', '0.5')], 'MON'); m.MaxTime = 1; tick(); m.main()

    def money_two_issuers(tick, box):
        m = Model(); box['m'] = m; tick(); f = Country(m, 'FED', currency='LOC'); tick(); o = Country(m, 'ON', currency='LOC'); tick(); sd.ConsolidatedGovernment(f, 'GOV'); tick()
        Sector(o, 'GOV'); tick(); sd.Household(o, 'HH'); tick(); sd.FixedMarginBusiness(o, 'BUS'); tick(); sd.TaxFlow(f, 'TF', taxrate=.2); tick(); Market(o, 'GOOD'); tick(); Market(o, 'LAB'); tick()
        sd.MoneyMarket(f); m.MaxTime = 1; tick(); m.main()

    def deposit_two_issuers(tick, box):
        # two regions of one currency zone, each with a government coded GOV; the money and deposit markets live in the first
        m = Model(); box['m'] = m; tick(); f = Country(m, 'CA', currency='LOC'); tick(); o = Country(m, 'ON', currency='LOC'); tick(); sd.ConsolidatedGovernment(f, 'GOV'); tick()
        sd.ConsolidatedGovernment(o, 'GOV'); tick()
        for cn in (f, o):
            h = Sector(cn, 'HH'); tick(); h.AddVariable('DEM_DEP', 'deposits held', '0.5*F')
        sd.MoneyMarket(f, issuer_short_code='GOV'); tick(); sd.DepositMarket(f, issuer_short_code='GOV'); m.MaxTime = 1; tick(); m.main()

    scen = [('financial-market-with-two-issuers:deposits', deposit_two_issuers, True), ('financial-market-without-issuer:money', money_no_issuer, True), ('financial-market-without-issuer:deposits', deposit_no_issuer, True),
            ('financial-market-with-two-issuers:money', money_two_issuers, True),
            ('duplicate-country', dup_country, False), ('duplicate-sector', dup_sector, False), ('duplicate-sector-different-kinds', dup_sector_kinds, False),
            ('double-underscore-local-name', underscores_local, False), ('double-underscore-sector-code', underscores_code, True),
            ('market-without-supplier', no_supplier, True), ('market-with-ambiguous-suppliers', ambiguous, True),
            ('market-with-ambiguous-labour-suppliers', ambiguous_labour, True),
            ('cross-currency-flow-without-external-sector', cross_no_ext, True), ('cross-currency-supplier-without-external-sector', cross_supplier_no_ext, True)]
    for label, fn, solves in scen:
        count = [0]

        def tick0():
            count[0] += 1
        box = {}
        expect(label, lambda: fn(tick0, box), (lambda: box['m'].EquationSolver) if solves else None)
        for pos in range(1, count[0] + 1):
            for iname, ifn in sorted(INTERRUPT.items()):
                box = {}
                seen = [0]

                def tick(pos=pos, ifn=ifn, seen=seen):
                    seen[0] += 1
                    if seen[0] == pos:
                        ifn()
                expect('%s@%s-after-call-%d' % (label, iname, pos), lambda: fn(tick, box), (lambda: box['m'].EquationSolver) if solves else None)
    return results


REPLAY_NC = '''
import sys
from fractions import Fraction as F
from sfc_models.equation_solver import EquationSolver, ConvergenceError
from vf.props.c11 import BLOCKS
name, cap, tol = %(case)r
vals = {k: float(F(v)) for k, v in %(vals)r.items()}
text, k0, exo = BLOCKS[name]
es = EquationSolver(text + '\\nErr_Tolerance = %%r\\nMaxTime = 2' %% tol, run_equation_reduction=True); es.MaxIterations = cap
for n in exo: es.Parser.Exogenous.append((n, [0.0] + [vals['%%s@%%d' %% (n, k)] for k in (1, 2)]))
es.ExtractVariableList(); es.SetInitialConditions()
for n in k0: es.TimeSeries[n][0] = vals[n + '@0']
bad = False; failing = None
import signal
def _alarm(*a): raise TimeoutError('runaway iteration')
signal.signal(signal.SIGALRM, _alarm); signal.alarm(20)
for step in (1, 2):
    es.TraceStep = step
    snap = {v: list(es.TimeSeries[v]) for v in es.TimeSeries}
    try:
        es.SolveStep(step)
    except ValueError as e:
        failing = step; print('step', step, 'raised', type(e).__name__); break
    except TimeoutError as e:
        print('step', step, 'did not stop within 20 s: more than cap+1 sweeps'); sys.exit(1)
    except Exception as e:
        print('step', step, 'raised', repr(e)); bad = True; failing = step; break
signal.alarm(0)
ts = es.TimeSeries
exo_names = {v for v, _ in es.Parser.Exogenous}
lens = {v: len(ts[v]) for v in ts if v not in exo_names}
print('series lengths', lens, 'sweeps traced', len(es.TimeSeriesStepTrace.get('iteration', [])))
if failing:
    if len(es.TimeSeriesStepTrace.get('iteration', [])) > cap + 1: bad = True
    if set(lens.values()) != {failing}: bad = True
    elif any(ts[v][:failing] != snap[v][:failing] for v in lens): bad = True
elif set(len(ts[v]) for v in ts) != {3}: bad = True
else:
    from vf.props.c11 import DIVISORS
    for dn in DIVISORS.get(name, []):
        if 0.0 in ts[dn][1:]:
            print('reported as solved although the divisor', dn, '=', ts[dn], 'is zero in a solved period:', {v: ts[v] for v in ts}); bad = True
sys.exit(1 if bad else 0)
'''

REPLAY_CONTR = '''
import sys
from fractions import Fraction as F
from sfc_models.equation_solver import EquationSolver
case = %(case)r
a, tol, box = case[:3]
with_fn = len(case) > 3 and case[3] == 'fn'
vals = {k: float(F(v)) for k, v in %(vals)r.items()}
es = EquationSolver(("x = %%r*idf(x) + B\\nErr_Tolerance = %%r\\nMaxTime = 1" if with_fn else "x = %%r*x + B\\nErr_Tolerance = %%r\\nMaxTime = 1") %% (a, tol))
if with_fn: es.AddFunction('idf', lambda v: v)
es.Parser.Exogenous.append(('B', [0.0, vals['B']]))
es.ExtractVariableList(); es.SetInitialConditions(); es.TimeSeries['x'][0] = vals['x0']
try:
    es.SolveStep(1)
except Exception as e:
    print('contraction not solved within the default cap:', repr(e)); sys.exit(1)
print('solved', es.TimeSeries['x']); sys.exit(0)
'''

FAR_STARTS = [(0.8, '1e6'), (0.8, '1e12'), (0.5, '1e30'), (0.5, '1e100'), (-0.8, '1e100'), (0.25, '1e30'), (-0.5, '-1e100')]


def far_start_outcomes():
    """The contraction clause says "always": start values far outside the symbolic boxes, concretely (x = a*x + 0.2 from x(0) = 1e6 ... 1e100 at the
    default tolerance and the default cap).  Returns [(a, x0, outcome)], outcome 'solved' or the name of the exception."""
    from sfc_models.equation_solver import EquationSolver
    out = []
    for a, x0 in FAR_STARTS:
        es = EquationSolver('x = %r*x + 0.2\nx(0) = %s\nMaxTime = 1' % (a, x0))
        try:
            es.SolveEquation()
            ok = abs(es.TimeSeries['x'][1] - 0.2 / (1 - a)) < 1e-5
            out.append((a, x0, 'solved' if ok else 'solved-to-a-wrong-value %r' % es.TimeSeries['x'][1]))
        except Exception as e:
            out.append((a, x0, type(e).__name__))
    return out


REPLAY_FAR = '''
import sys
from vf.props.c11 import far_start_outcomes
r = [x for x in far_start_outcomes() if x[0] == %(a)r and x[1] == %(x0)r][0]
print('x = %%r*x + 0.2 from x(0) = %%s at the default tolerance and cap: %%s' %% r)
sys.exit(0 if r[2] == 'solved' else 1)
'''


def float_error_outcomes():
    """Arithmetic errors that only binary floating point has (overflow of ** / exp, a complex result of a fractional power of a negative number), in a
    simultaneous and in a decorative equation, persistent from period 1 or appearing in period 2: solving must stop with a convergence / value error and
    leave every series with the same length (enumerated outcome checks: the error comes from C-level float arithmetic, there is no symbolic input)."""
    from sfc_models.equation_solver import EquationSolver
    blocks = {
        'overflow-power-simultaneous': "x = x**2 + 2.\nMaxTime = 2",
        'overflow-exp-simultaneous': "x = exp(x) + 2.\nMaxTime = 2",
        'overflow-power-decorative': "y = 0.5*y + 40.\nd = 10.**(y*y)\nMaxTime = 2",
        'overflow-second-period': "y = LY + 400.\nLY = y(k-1)\nd = exp(y)\nMaxTime = 3",
        'complex-power-simultaneous': "x = (0-2.)**0.5\nMaxTime = 2",
        'complex-power-decorative': "y = 0.5*y - 3.\nd = y**0.5\nMaxTime = 2",
        'complex-second-period': "y = 10. - 8.*k\nz = y**0.5 + 0*z\nMaxTime = 3",
        # a value that overflows at time zero only (computed from constants and k = 0), carried into period 1 by a lag / used by a decorative variable
        'overflow-at-time-zero-lagged': "y = 1e308*max(1-k, 0.)*10\nLAG_y = y(k-1)\nx = 0.5*x + 1\nMaxTime = 2",
        'overflow-at-time-zero-decorative': "c = 1e308\nd = c*10*max(1-k, 0.)\nL = d(k-1)\nx = 0.5*x + 1\nMaxTime = 2",
    }
    out = []
    for name, text in sorted(blocks.items()):
        for red in (True, False):
            es = EquationSolver(text, run_equation_reduction=red)
            err = None
            try:
                es.SolveEquation()
            except ValueError as e:
                err = e
            except Exception as e:
                out.append((name, red, False, 'raises %s: %s (neither a convergence nor a value error)' % (type(e).__name__, e)))
                continue
            lens = {v: len(es.TimeSeries[v]) for v in es.TimeSeries if v not in ('k',)}
            if err is None:
                cx = {v: x for v in es.TimeSeries for x in es.TimeSeries[v] if isinstance(x, complex)}
                out.append((name, red, False, 'reported as solved%s' % ('; complex values stored for %r' % sorted(cx) if cx else '')))
            elif len(set(lens.values())) > 1:      # (no series at all - refused before the first period - is 'equal length' too)
                out.append((name, red, False, 'raises %s but leaves series of unequal length %r' % (type(err).__name__, lens)))
            else:
                out.append((name, red, True, type(err).__name__))
    return out


REPLAY_DECL = '''
import sys
from vf.props.c11 import invalid_declarations
r = [x for x in invalid_declarations() if x[0] == %(label)r][0]
print(r); sys.exit(0 if (r[1] is not None and r[2]) else 1)
'''


def run(tier, seed):
    chk = Check('C11', tier, 'model_checking', seed)
    chk.encode(EquationSolver._SolveStep, EquationSolver.SolveStep, sfc_models.equation_parser.EquationParser.ValidateInputs,
               sfc_models.utils.get_invalid_variable_names, sfc_models.utils.get_invalid_tokens, sfc_models.models.Model._AddCountry,
               sfc_models.models.Country._AddSector, sfc_models.sector.Sector.AddVariable, sfc_models.sector.Sector.GetVariableName,
               sfc_models.sector.Market._SearchSupplier, sfc_models.models.Model._GenerateRegisteredCashFlows)
    BUDGET[0] = 60 if tier == 'quick' else 400
    BUDGET[1] = 100 if tier == 'quick' else 1200
    from vf import selfcheck
    selfcheck.run(chk)      # differential validation of the E2 value classes (trusted base) against plain floats
    ncs, ccs = nc_cases(tier), contraction_cases(tier)
    chk.bounds = {'non-convergence / evaluation errors': '%d cases: blocks %r x iteration cap; 2 periods; start values and exogenous symbolic in [-100,100]' % (len(ncs), sorted(BLOCKS)),
                  'contraction => success': '%d cases x = A*x + B, A in {0.8,-0.8,0.5,...}, B and x(0) symbolic in the stated box (quick: A in {-0.8, 0.5, -0.5, 0.25} with boxes +-1000/+-100; A = 0.8 needs ~130 damped sweeps and is explored in the thorough tier only), DEFAULT cap 400, tolerance >= %g, one variable'
                  % (len(ccs), min(c[1] for c in ccs)),
                  'invalid declarations': 'every keyword / builtin / math name / k / self / None as variable name and as token, with equation reduction on and off; a variable defined twice (simultaneous / lagged / exogenous / mixed); duplicate country / sector; "__" in local '
                  'name and sector code; market without / with ambiguous suppliers (goods and labour); cross-currency flow and cross-currency supplier without external sector; financial asset market without / with two issuers; each model-level '
                  'scenario also with another model started / half built / built-and-solved after every one of its construction calls'}
    chk.assumptions = ['sweep count is read from the public step trace (TraceStep)', 'TimeSeriesHolder.GenerateCSVtext stubbed to "" in E2 runs']
    chk.bounds['float-only arithmetic errors'] = 'overflow of ** / exp and complex results of fractional powers, in simultaneous and decorative equations, from period 1 or 2, reduction on/off: 14 enumerated outcome checks'
    chk.bounds['symbolic local names (CrossHair)'] = ('names a + "__" + b (+ "__" + c), a and b up to 2 characters over "a_1" (AddCashFlow route: up to 1 over "a_"), c up to 1: refused by '
                                                     'Sector.AddVariable / AddVariableFromEquation / AddCashFlow(eqn=) followed by main(); twin: names without the separator are accepted')
    from vf import chx
    H11 = os.path.join(os.path.dirname(os.path.dirname(os.path.abspath(__file__))), 'harness', 'c11_h.py')
    chx.absorb(chk, H11, chx.run_file(H11, timeout=200 if tier == 'quick' else 600))
    chk.outside = ['contraction => success for more than one simultaneous variable (the property states up to 12): path count grows as sweeps^n - not reached, not claimed',
                   'domain errors of math functions (need float arguments)']
    for st, o in pmap(nc_case, ncs):
        if st != 'ok':
            chk.harness_errors.append(o[:800])
            continue
        chk.count('paths', o['paths']); chk.count('forks', o['forks'])
        chk.solver_s += o['solver_s']; chk.queries += o['queries']
        for k, v in o['outcomes'].items():
            chk.count('outcome:' + k, v)
        what = 'block %s cap=%d tol=%g: returns or raises a convergence/value error within cap+1 sweeps, earlier periods intact' % o['case']
        if not o['exhaustive'] or o['dunknown']:
            chk.ob('unknown', what + ' (paths %d, unknown %d)' % (o['paths'], o['dunknown']))
        else:
            chk.ob('sat' if o['viol'] else 'unsat', what, distinct=('nc',) + tuple(o['case']))
        if o['viol']:
            if o['viol']['vals'] is None:
                chk.harness_errors.append(what + ': ' + o['viol']['why'] + ' (no model)')
            else:
                chk.violation('nc:%s:%s' % (o['case'][0], o['viol']['why'][:40]), what + ': ' + o['viol']['why'], REPLAY_NC % dict(case=o['case'], vals=o['viol']['vals']))
        chk.sample({'harness': what, 'paths': o['paths'], 'outcomes': o['outcomes']}, cap=10)
    for st, o in pmap(contraction_case, ccs):
        if st != 'ok':
            chk.harness_errors.append(o[:800])
            continue
        chk.count('paths', o['paths']); chk.count('forks', o['forks'])
        chk.solver_s += o['solver_s']; chk.queries += o['queries']
        what = 'contraction x = %r*x + B, tol %g, |B|,|x0| <= %g, default cap: every path solved' % o['case'][:3] + (' (map written through a user function)' if len(o['case']) > 3 else '')
        if not o['exhaustive'] or o['dunknown']:
            chk.ob('unknown', what + ' (exploration incomplete: paths %d, deepest %d sweeps, unknown %d)' % (o['paths'], o['max_sweeps'], o['dunknown']))
        else:
            chk.ob('sat' if o['viol'] else 'unsat', what, distinct=('contraction',) + tuple(o['case']))
        if o['viol'] and o['viol']['vals']:
            chk.violation('contraction:%r%s' % (o['case'][0], ':user-function' if len(o['case']) > 3 else ''), what + ': ' + o['viol']['why'], REPLAY_CONTR % dict(case=o['case'], vals=o['viol']['vals']))
        chk.sample({'harness': what, 'paths': o['paths'], 'deepest_path_sweeps': o['max_sweeps'], 'outcomes': o['outcomes'], 'exhaustive': o['exhaustive']}, cap=16)
    chk.bounds['contraction from far away'] = 'x = a*x + 0.2 from the start values %r, default tolerance and cap (concrete runs: the property says "always")' % (FAR_STARTS,)
    for a, x0, outcome in far_start_outcomes():
        chk.ob('unsat' if outcome == 'solved' else 'sat', 'contraction x = %r*x + 0.2 from x(0) = %s solved within the default cap' % (a, x0), distinct=('far-start', a, x0))
        if outcome != 'solved':
            chk.violation('contraction-far-start:%r:%s' % (a, x0), 'contraction x = %r*x + 0.2 from x(0) = %s at the default tolerance and cap: %s' % (a, x0, outcome), REPLAY_FAR % dict(a=a, x0=x0))
    decl = invalid_declarations()
    chk.counters['invalid_declaration_cases'] = len(decl)
    for label, exc, clean in decl:
        chk.obligations += 1
        if exc is not None and clean:
            chk.discharged += 1
        else:
            chk.violation('decl:' + label, 'invalid declaration %s: %s' % (label, 'accepted' if exc is None else 'raised %s but numbers were produced' % exc),
                          REPLAY_DECL % dict(label=label))
    chk.distinct |= {('decl', l) for l, _, _ in decl}
    for name, red, ok, detail in float_error_outcomes():
        chk.obligations += 1
        chk.count('float_error_outcome_checks')
        if ok:
            chk.discharged += 1
        else:
            chk.violation('float-error:%s' % name, 'block %s (reduction %s): %s' % (name, 'on' if red else 'off', detail),
                          'import sys\nfrom vf.props.c11 import float_error_outcomes\nr = [t for t in float_error_outcomes() if t[0] == %r and t[1] == %r][0]\nprint(r)\nsys.exit(0 if r[2] else 1)\n' % (name, red))
    chk.sample({'harness': 'enumerated invalid declarations (no numeric input: outcome checks, not solver-decided)', 'cases': len(decl),
                'examples': [d for d in decl if not d[0].startswith(('variable-name', 'token'))]}, cap=20)
    chk.exhaustive = True
    return chk.finish()
