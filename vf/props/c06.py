"""C06 sector ledgers reflect exactly the recorded flows. E2 (symbolic coefficients through the real AddCashFlow) as an
inductive step + E1 on concrete call histories and on RegisterCashFlow sequences through Model.main()."""
import itertools

import z3

from vf.symx import Driver, SymCoef
from vf.common import Check, stable_hash
from vf.eqsmt import to_z3, Untranslatable, Decider, val_fraction
from vf.par import pmap
from vf.emit import emit
from vf.zoo import Ctx
from sfc_models.models import Model, Country
from sfc_models.sector import Sector
from sfc_models.equation import Term
from sfc_models.utils import LogicError
import sfc_models.sector
import sfc_models.equation
import sfc_models.models

TERMS = ['x', '+x', '-x', '(-x)', '-(x)', '-(-x)', 'x*y', '-x/y', 'A__x', ' - y ', 'y', '-A__x*y', 'y/x', 'y*x']
PRE_F = [(), ('x',), ('x', 'y'), ('x*y', 'A__x'), ('y', 'x/y')]
FLOWVAR = ['absent', 'empty', 'zero', 'zero-dot', 'defined', 'built-on-empty', 'built-on-zero', 'built-cancelled', 'built-on-defined']
# how an existing definition of the flow variable came about through the public API: AddVariable(name, desc, initial) then AddTermToEquation(name, term)...
BUILT = {'built-on-empty': ('', ['z', 'w*v'], 'z + w*v'), 'built-on-zero': ('0.0', ['z'], 'z'), 'built-cancelled': ('', ['z', '-z'], None),
         'built-on-defined': ('z*2', ['w'], 'z*2 + w')}
EXCL = [(), ('x',), ('y',), ('x', 'y'), ('other:x',), ('twin:x',), ('twin:x', 'y')]      # other: another sector of the country; twin: the same sector code in another country


def unsigned(term):
    """Harness-side normal form of a flow name: spaces, leading sign and one enclosing bracket pair removed."""
    t = term.replace(' ', '')
    if t[0] in '+-':
        t = t[1:]
    if t.startswith('(') and t.endswith(')'):
        t = t[1:-1]
        if t[0] in '+-':
            t = t[1:]
    return t


def make_sector():
    m = Model()
    c = Country(m, 'CO')
    s = Sector(c, 'S')
    o = Sector(c, 'O')
    c2 = Country(m, 'C2')
    m.Twin = Sector(c2, 'S')        # same short code, another country
    return m, s, o


def env_of(D):
    def env(n):
        if n in D.placeholders:
            return D.placeholders[n]
        return z3.Real('X_' + n)
    return env


def configs(tier):
    out = []
    for which in ('F', 'INC'):
        for pre in PRE_F:
            for t in TERMS:
                for inc in (True, False):
                    for ex in EXCL:
                        name = unsigned(t)
                        simple = name.isidentifier() and '__' not in name
                        fvs = FLOWVAR if simple else ['n/a']
                        for fv in fvs:
                            if tier == 'quick' and which == 'INC' and fv in ('zero-dot', 'empty'):
                                continue
                            if fv.startswith('built') and (which == 'INC' or (tier == 'quick' and (len(pre) + len(ex)) % 2)):
                                continue
                            out.append((which, pre, t, inc, ex, fv))
    return out


def warm_of(cfg):
    which, pre, t, inc, ex, fv = cfg
    return (len(pre) + len(ex) + len(t)) % 2 == 1


def run_config(cfg):
    which, pre, t, inc, ex, fv = cfg
    D = Driver(timeout_ms=10000, max_paths=4000, max_seconds=120)
    D.assume(z3.Real('X_y') != 0, z3.Real('X_x') != 0)
    cs = [z3.Real('c%d' % i) for i in range(len(pre))]
    out = {'cfg': cfg, 'viol': None, 'unknown': 0, 'rejected': 0, 'accepted': 0}
    name = unsigned(t)
    with_eqn = fv != 'n/a'
    EQN = 'q*3 + 1'
    OLD = {'empty': '', 'zero': '0.0', 'zero-dot': '0.', 'defined': 'z*2'}

    def path():
        m, s, o = make_sector()
        if warm_of(cfg):
            # the sector already has an (income) flow on its books when the exclusions are registered
            s.AddCashFlow('w0', is_income=True)
        for e in ex:
            if e.startswith('other:'):
                m.AddCashFlowIncomeExclusion(o, e.split(':')[1])
            elif e.startswith('twin:'):
                m.AddCashFlowIncomeExclusion(m.Twin, e.split(':')[1])
            else:
                m.AddCashFlowIncomeExclusion(s, e)
        for p in pre:
            s.EquationBlock['F'].AddTerm(p)
            s.EquationBlock['INC'].AddTerm(p)
        tl = [tm for tm in s.EquationBlock[which].TermList if tm.Term != 'LAG_F']
        for tm, c in zip(tl, cs):
            tm.Constant = SymCoef(c)
        if with_eqn and fv in BUILT:
            s.AddVariable(name, 'flow variable', BUILT[fv][0])
            for tm in BUILT[fv][1]:
                s.AddTermToEquation(name, tm)
        elif with_eqn and fv != 'absent':
            s.AddVariable(name, 'flow variable', OLD[fv])
        bF, bI = s.EquationBlock['F'].RHS(), s.EquationBlock['INC'].RHS()
        try:
            if with_eqn:
                s.AddCashFlow(t, EQN, 'a flow', is_income=inc)
            else:
                s.AddCashFlow(t, is_income=inc)
        except (LogicError, SyntaxError, NotImplementedError, ValueError):
            out['rejected'] += 1
            return 'rejected'
        aF, aI = s.EquationBlock['F'].RHS(), s.EquationBlock['INC'].RHS()
        env = env_of(D)
        try:
            vt = to_z3(t, env)
            zbF, zaF, zbI, zaI = [to_z3(x, env) for x in (bF, aF, bI, aI)]
        except Untranslatable as e:
            if out['viol'] is None:
                out['viol'] = {'why': 'rendering does not parse: %s' % e, 'c': ['0'] * len(cs), 'detail': [bF, aF, bI, aI]}
            return 'unparsable'
        excluded = name in [e for e in ex if ':' not in e]
        counts = inc and not excluded
        post = [zaF == zbF + vt, zaI == (zbI + vt if counts else zbI)]
        labels = ['F after == F before + flow', 'INC after == INC before %s' % ('+ flow' if counts else '(not income / excluded)')]
        if with_eqn:
            got = s.EquationBlock[name].RHS() if name in s.EquationBlock else None
            if fv in BUILT:
                want = BUILT[fv][2] or EQN
            else:
                want = EQN if fv in ('absent', 'empty', 'zero', 'zero-dot') else OLD[fv]      # '0.' is identically zero like '0.0'
            ok = got is not None and _same(got, want, env)
            if not ok and out['viol'] is None:
                out['viol'] = {'why': 'flow variable %s defined as %r, expected %r' % (name, got, want), 'c': ['1'] * len(cs), 'detail': []}
        out['accepted'] += 1
        for lab, p in zip(labels, post):
            r, mdl = D.holds(p)
            if r == 'sat' and out['viol'] is None:
                out['viol'] = {'why': lab + ' fails', 'c': [str(val_fraction(mdl.eval(c, model_completion=True))) for c in cs],
                               'detail': [bF, aF, bI, aI]}
            elif r == 'unknown':
                out['unknown'] += 1
        return 'ok'
    D.run_all(path)
    out.update(paths=D.paths, forks=D.forks, queries=D.queries, solver_s=D.solver_s, exhaustive=D.exhaustive, dunknown=D.unknown)
    return out


def _same(a, b, env):
    try:
        za = to_z3(a, env) if a.strip() else z3.RealVal(0)
        zb = to_z3(b, env) if b.strip() else z3.RealVal(0)
    except Untranslatable:
        return False
    return z3.eq(z3.simplify(za - zb), z3.RealVal(0))


def chunk(cfgs):
    return [run_config(c) for c in cfgs]


# ---- concrete call histories ---------------------------------------------------------------------------------------------------

HIST_TERMS = ['x', '-x', '(-x)', '-(-x)', 'y', '-y', 'x*y', '-x*y', 'A__x', '-A__x']


def hist_chunk(seqs):
    bad = []
    n = 0
    env = lambda nme: z3.Real('X_' + nme)
    for seq, flags, ex in seqs:
        m, s, o = make_sector()
        for e in ex:
            if isinstance(e, str):
                m.AddCashFlowIncomeExclusion(s, e)
        try:
            for i, (t, inc) in enumerate(zip(seq, flags)):
                for e in ex:
                    if not isinstance(e, str) and e[0] == i:
                        m.AddCashFlowIncomeExclusion(s, e[1])        # registered between two flows: in force for the flows that follow
                s.AddCashFlow(t, is_income=inc)
        except Exception as e:
            bad.append((seq, flags, ex, 'raises %r' % (e,)))
            continue
        n += 1
        wantF = env('LAG_F')
        wantI = z3.RealVal(0)
        for j, (t, inc) in enumerate(zip(seq, flags)):
            v = to_z3(t, env)
            wantF = wantF + v
            if inc and unsigned(t) not in [e if isinstance(e, str) else e[1] for e in ex if isinstance(e, str) or e[0] <= j]:
                wantI = wantI + v
        try:
            gotF = to_z3(s.EquationBlock['F'].RHS(), env)
            gotI = to_z3(s.EquationBlock['INC'].RHS(), env)
        except Untranslatable as e:
            bad.append((seq, flags, ex, 'rendering does not parse: %s' % e))
            continue
        if not z3.eq(z3.simplify(gotF - wantF), z3.RealVal(0)):
            bad.append((seq, flags, ex, 'F = %r is not LAG_F + signed sum of the flows' % s.EquationBlock['F'].RHS()))
        if not z3.eq(z3.simplify(gotI - wantI), z3.RealVal(0)):
            bad.append((seq, flags, ex, 'INC = %r is not the signed sum of the income flows' % s.EquationBlock['INC'].RHS()))
    return {'n': n, 'bad': bad}


def histories(tier):
    out = []
    L = 3
    for n in range(1, L + 1):
        for seq in itertools.product(HIST_TERMS, repeat=n):
            if tier == 'quick' and n == 3 and (stable_hash(seq) % 4):
                continue
            for flags in itertools.product((True, False), repeat=n):
                if n == 3 and flags not in ((True, True, True), (True, False, True), (False, True, False)):
                    continue
                for ex in ((), ('x',)) + ((((1, 'y'),), ('x', (1, 'y')), ((1, 'x'), (2, 'y'))) if n >= 2 else ()):
                    if any(not isinstance(e, str) and e[0] >= n for e in ex):
                        continue
                    out.append((seq, flags, ex))
    return out


# ---- RegisterCashFlow sequences through Model.main() --------------------------------------------------------------------------

def reg_cases(tier):
    secs = ['A', 'B', 'C']
    flows = []
    for s, d in itertools.permutations(secs, 2):
        for var in ('G1', 'G2'):
            flows.append((s, d, var))
    out = []
    L = 2 if tier == 'quick' else 3
    for n in range(1, L + 1):
        for seq in itertools.product(flows, repeat=n):
            if n >= 2 and tier == 'quick' and (stable_hash(seq) % 3):
                continue
            if n == 3 and (stable_hash(seq) % 9):
                continue
            for fl in ((True, True), (False, True), (True, False)):
                out.append((seq, fl))
    return out


def reg_chunk(cases):
    bad = []
    n = 0
    env = lambda nme: z3.Real(nme)
    for seq, (isrc, idst) in cases:
        m = Model()
        c = Country(m, 'CO')
        S = {k: Sector(c, k) for k in 'ABC'}
        for k in 'ABC':
            S[k].AddVariable('G1', 'gift 1', '1.0')
            S[k].AddVariable('G2', 'gift 2', '2.0')
        for s, d, var in seq:
            m.RegisterCashFlow(S[s], S[d], var, isrc, idst)
        ctx = Ctx()
        ctx.model = m
        em = emit(ctx)
        if not em.text:
            bad.append((seq, (isrc, idst), 'main raises %r' % (em.err,)))
            continue
        n += 1
        final = dict(list(em.parser.Endogenous) + list(em.parser.Decoration))
        for k in 'ABC':
            wantF = env('%s__LAG_F' % k)
            wantI = z3.RealVal(0)
            for s, d, var in seq:
                v = env('%s__%s' % (s, var))
                if s == k:
                    wantF = wantF - v
                    if isrc:
                        wantI = wantI - v
                if d == k:
                    wantF = wantF + v
                    if idst:
                        wantI = wantI + v
            try:
                gotF = to_z3(final['%s__F' % k], env)
                gotI = to_z3(final['%s__INC' % k], env)
            except (Untranslatable, KeyError) as e:
                bad.append((seq, (isrc, idst), 'sector %s: %r' % (k, e)))
                continue
            if not z3.eq(z3.simplify(gotF - wantF), z3.RealVal(0)) or not z3.eq(z3.simplify(gotI - wantI), z3.RealVal(0)):
                bad.append((seq, (isrc, idst), 'sector %s: F = %r, INC = %r' % (k, final['%s__F' % k], final['%s__INC' % k])))
    return {'n': n, 'bad': bad}


REPLAY_STEP = '''
import sys
from fractions import Fraction as F
from vf.props.c06 import make_sector, unsigned, BUILT, warm_of
which, pre, t, inc, ex, fv = %(cfg)r
cs = %(cs)r
m, s, o = make_sector()
if warm_of(%(cfg)r): s.AddCashFlow('w0', is_income=True)
for e in ex:
    if e.startswith('other:'): m.AddCashFlowIncomeExclusion(o, e.split(':')[1])
    elif e.startswith('twin:'): m.AddCashFlowIncomeExclusion(m.Twin, e.split(':')[1])
    else: m.AddCashFlowIncomeExclusion(s, e)
for p in pre:
    s.EquationBlock['F'].AddTerm(p); s.EquationBlock['INC'].AddTerm(p)
tl = [tm for tm in s.EquationBlock[which].TermList if tm.Term != 'LAG_F']
for tm, c in zip(tl, cs): tm.Constant = float(F(c))
name = unsigned(t)
OLD = {'empty': '', 'zero': '0.0', 'zero-dot': '0.', 'defined': 'z*2'}
if fv in BUILT:
    s.AddVariable(name, 'flow variable', BUILT[fv][0])
    for tm in BUILT[fv][1]: s.AddTermToEquation(name, tm)
elif fv not in ('n/a', 'absent'): s.AddVariable(name, 'flow variable', OLD[fv])
bF, bI = s.EquationBlock['F'].RHS(), s.EquationBlock['INC'].RHS()
if fv != 'n/a': s.AddCashFlow(t, 'q*3 + 1', 'a flow', is_income=inc)
else: s.AddCashFlow(t, is_income=inc)
aF, aI = s.EquationBlock['F'].RHS(), s.EquationBlock['INC'].RHS()
print('F  : %%r -> %%r' %% (bF, aF)); print('INC: %%r -> %%r' %% (bI, aI))
import random
rnd = random.Random(5); bad = False
counts = inc and name not in [e for e in ex if ':' not in e]
for i in range(5):
    env = {n: rnd.uniform(0.5, 3.0) for n in ('x', 'y', 'A__x', 'LAG_F', 'q', 'z', 'w0')}
    ev = lambda tx: eval(tx, {}, env)
    if abs(ev(aF) - (ev(bF) + ev(t))) > 1e-9 * (1 + abs(ev(aF))): bad = True; print('F not increased by the flow at', env)
    if abs(ev(aI) - (ev(bI) + (ev(t) if counts else 0.0))) > 1e-9 * (1 + abs(ev(aI))): bad = True; print('INC wrong at', env)
    if bad: break
if fv != 'n/a':
    got = s.EquationBlock[name].RHS()
    if fv in BUILT: want = BUILT[fv][2] or 'q*3 + 1'
    else: want = 'q*3 + 1' if fv in ('absent', 'empty', 'zero', 'zero-dot') else OLD[fv]
    print('flow variable', name, '=', repr(got), 'expected', repr(want))
    env = {'q': 1.7, 'z': 2.9, 'w': 0.7, 'v': 1.3}
    g = eval(got, {}, env) if got.strip() else 0.0
    bad = bad or abs(g - (eval(want, {}, env) if want.strip() else 0.0)) > 1e-9
sys.exit(1 if bad else 0)
'''

# ---- flows registered after the model's alias pass (the step-wise runner resolves aliases BEFORE the sectors generate their equations) ------------

def alias_pass_cases(tier):
    out = []
    for prior in ('', '0.0', 'z*2', 'absent'):
        for term in ('X', '-X', '+X'):
            for with_alias in (True, False):
                out.append((prior, term, with_alias))
    return out


def alias_pass_chunk(cases):
    bad = []
    n = 0
    env = lambda nme: z3.Real('X_' + nme)
    for prior, term, with_alias in cases:
        m, s, o = make_sector()
        o.AddVariable('W', 'w', '1.0')
        if with_alias:
            o.GetVariableName('W')              # one placeholder handed out: the alias pass has something to do
        if prior != 'absent':
            s.AddVariable('X', 'flow variable', prior)
        m._GenerateFullSectorCodes()
        m._FixAliases()
        try:
            s.AddCashFlow(term, 'q*3 + 1', 'a flow')
        except Exception as e:
            bad.append((prior, term, with_alias, 'raises %r' % (e,)))
            continue
        n += 1
        got = s.EquationBlock['X'].RHS()
        want = 'z*2' if prior == 'z*2' else 'q*3 + 1'
        if not _same(got, want, env):
            bad.append((prior, term, with_alias, 'flow variable X is %r, expected %r (prior definition %r)' % (got, want, prior)))
    return {'n': n, 'bad': bad}


REPLAY_ALIAS = '''
import sys
from vf.props import c06
r = c06.alias_pass_chunk([%(case)r])
print(r['bad']); sys.exit(1 if r['bad'] else 0)
'''

REPLAY_HIST = '''
import sys
from vf.props import c06
r = c06.hist_chunk([%(case)r])
print(r['bad']); sys.exit(1 if r['bad'] else 0)
'''
REPLAY_REG = '''
import sys
from vf.props import c06
r = c06.reg_chunk([%(case)r])
print(r['bad']); sys.exit(1 if r['bad'] else 0)
'''


def run(tier, seed):
    chk = Check('C06', tier, 'model_checking', seed)
    chk.encode(Sector.AddCashFlow, sfc_models.equation.Equation.AddTerm, sfc_models.equation.Term.__init__, sfc_models.equation.Term.__str__,
               sfc_models.models.Model.AddCashFlowIncomeExclusion, sfc_models.models.Model.RegisterCashFlow,
               sfc_models.models.Model._GenerateRegisteredCashFlows)
    from vf import selfcheck
    selfcheck.run_coef(chk)      # differential validation of the E2 value class against the plain run (trusted base)
    cfgs = configs(tier)
    hs = histories(tier)
    rc = reg_cases(tier)
    chk.bounds = {'inductive step': '%d configurations: ledger (F or INC) with terms %r under SYMBOLIC real coefficients x flow term in %r x is_income x '
                  'exclusion sets %r x flow-variable status %r' % (len(cfgs), PRE_F, TERMS, EXCL, FLOWVAR),
                  'concrete AddCashFlow histories': '%d sequences of length <= 3' % len(hs),
                  'RegisterCashFlow sequences through Model.main()': '%d sequences of length <= %d among three sectors' % (len(rc), 2 if tier == 'quick' else 3),
                  'numeric domain': 'all real coefficients and valuations'}
    chk.assumptions = ['income exclusions are registered before the flows they concern (the exclusion list is consulted when a flow is registered; an exclusion added afterwards is not retroactive - documented behaviour, not claimed)', 'names used as divisors are non-zero', "a prior definition spelled as a zero literal ('0.0', '0.') is identically zero and is replaced (until round 7 the spelling '0.' was a don't-care)", 'an exclusion is in force for flows registered after it (pre-state of the step)',
                       'a defining expression is passed only with a single local name as the flow term']
    chk.outside = ['flow terms with more than one operator', 'exclusions registered after the flow they name (exclusions registered BETWEEN flows are covered: in force for the flows that follow)']
    n = 48
    for st, lst in pmap(chunk, [cfgs[i::n] for i in range(n)]):
        if st != 'ok':
            chk.harness_errors.append(lst[:800])
            continue
        for o in lst:
            chk.count('paths', o['paths'])
            chk.count('forks', o['forks'])
            chk.solver_s += o['solver_s']
            chk.queries += o['queries']
            chk.count('accepted_paths', o['accepted'])
            chk.count('rejected_paths', o['rejected'])
            what = 'AddCashFlow step %r' % (o['cfg'],)
            if not o['exhaustive'] or o['unknown'] or o['dunknown']:
                chk.ob('unknown', what)
            else:
                chk.ob('sat' if o['viol'] else 'unsat', what, distinct=('step',) + tuple(map(str, o['cfg'])))
            if o['viol']:
                chk.violation('step:%s:%s:%s' % (o['cfg'][0], o['cfg'][2], o['viol']['why'][:60]), '%s: %s %s' % (what, o['viol']['why'], o['viol']['detail']),
                              REPLAY_STEP % dict(cfg=o['cfg'], cs=o['viol']['c']))
            elif len(chk.samples) < 8 and o['accepted'] > 10:
                chk.sample({'harness': 'E2 Sector.AddCashFlow', 'ledger with symbolic coefficients': o['cfg'][0], 'terms': o['cfg'][1], 'flow': o['cfg'][2],
                            'is_income': o['cfg'][3], 'exclusions': o['cfg'][4], 'flow variable': o['cfg'][5], 'paths': o['paths'], 'verdict': 'post holds on every path'})
    apc = alias_pass_cases(tier)
    chk.bounds['flows registered after the alias pass'] = '%d cases: prior definition absent / empty / 0.0 / genuine x term spelling x placeholder handed out or not; Model._GenerateFullSectorCodes + _FixAliases (the first two steps of the step-wise runner) run before AddCashFlow(term, eqn)' % len(apc)
    for fn, cases, tmpl, tag in ((hist_chunk, hs, REPLAY_HIST, 'history'), (reg_chunk, rc, REPLAY_REG, 'register'), (alias_pass_chunk, apc, REPLAY_ALIAS, 'after-alias-pass')):
        for st, r in pmap(fn, [cases[i::32] for i in range(32)]):
            if st != 'ok':
                chk.harness_errors.append(r[:800])
                continue
            chk.obligations += r['n']
            badcases = {repr(b[:-1]) for b in r['bad']}
            chk.discharged += r['n'] - len(badcases)
            for b in r['bad']:
                case = b[:-1]
                chk.violation('%s:%r' % (tag, case), '%s %r: %s' % (tag, case, b[-1]), tmpl % dict(case=case))
        chk.distinct |= {(tag, i) for i in range(len(cases))}
    chk.sample({'harness': 'E1 concrete histories', 'post': 'F == LAG_F + signed sum, INC == signed sum of income flows not excluded (z3 normal forms)', 'count': len(hs)})
    chk.exhaustive = True
    return chk.finish()
