"""C17 results depend only on the model, not on process history or diagnostics.
E2: the target solve runs on symbolic inputs after every history of <= 3 operations and again history-free; z3 shows the
result terms identical under the path condition.  Text clause: FinalEquations at several object-ID offsets."""
import itertools
import os
import shutil
import tempfile

import z3

from vf import symx
from vf.symx import Driver, SymReal
from vf.common import Check, stable_hash
from vf.par import pmap
from vf.props.c15 import StubRender
import sfc_models.models
import sfc_models.utils
from sfc_models.utils import Logger
from sfc_models.equation_solver import EquationSolver
from sfc_models.models import Model, Country, EconomicObject
from sfc_models.sector import Sector

TARGET = "x = 0.5*LX + G\nd = x + G\nLX = x(k-1)\nMaxTime = 2\nErr_Tolerance = 0.01"
TARGET_FN = "x = 0.5*LX + fn(G)\nd = fn(x)\nLX = x(k-1)\nMaxTime = 2\nErr_Tolerance = 0.01"
TARGET_SS = "x = G\nd = x + LX\nLX = x(k-1)\nMaxTime = 2\nErr_Tolerance = 0.01"
TARGET_DF = "x = 0.5*LX + G\np = x\na = p\ns = a\nd = 0.5*a + 1\nLX = x(k-1)\nMaxTime = 2\nErr_Tolerance = 0.01"      # dependents set aside before the alias they use
TARGETS = {"plain": (TARGET, {}), "dependent-first-decoratives": (TARGET_DF, {}), "user-function": (TARGET_FN, {"fn": lambda v: 2 * v + 1}), "steady-state-init": (TARGET_SS, {})}
OTHER_FN = "a = 0.5*a + fn(3)\nb = a + y\ny = 2\nx = 7\nMaxTime = 2"
OTHER = "a = 0.5*a + 3\nb = a + y\ny = 2\nx = 7\nMaxTime = 2"
OTHER_LONG = "a = 0.5*a + 3\nb = a + y\ny = 2\nx = 7\nMaxTime = 4"       # previous block with a longer / shorter horizon than the target block
OTHER_IC = "x = 0.5*LX + 3\nd = x + 1\nLX = x(k-1)\nx(0) = 9.\nd(0) = 5.\nLX(0) = 4.\nMaxTime = 2"      # same names as the target, with initial conditions of its own
OTHER_SHORT = "a = 0.5*a + 3\nb = a + y\ny = 2\nx = 7\nMaxTime = 1"
OPS = ['other-model', 'other-solver', 'logs-on', 'logs-off', 'trace', 're-solve', 're-parse', 're-parse-longer-horizon', 're-parse-shorter-horizon', 're-parse-after-block-with-initial-conditions', 're-parse-after-diagnosed-block', 'solver-between-parse-and-solve', 'target-first']
MID = "x = 0.25*LX + 9\nd = x - 1\nLX = x(k-1)\nG = 3\nMaxTime = 2"      # same variable names as the target blocks, other equations


def build_other_model():
    m = Model()
    c = Country(m, 'ZZ')
    s = Sector(c, 'S')
    s.AddVariable('Q', 'q', '0.5*Q + 1')
    m.MaxTime = 2
    m.main()
    return m


def target_solve(es, g, x0):
    """Solve the target block on the given solver object with symbolic exogenous values / start value."""
    es.Parser.Exogenous.append(('G', [0.0] + [SymReal(v) for v in g]))
    es.VariableList = [] if False else es.VariableList
    es.ExtractVariableList() if len(es.VariableList) == 0 else None
    es.SetInitialConditions()
    es.TimeSeries['x'][0] = SymReal(x0)
    for step in range(1, es.Parser.MaxTime + 1):
        es.SolveStep(step)
    return es


def public_solve(es, g, x0, tname, first=True):
    """Solve through the public SolveEquation() (steady-state target) or step by step with an injected start value.
    The solver is configured once, before its first solve; a re-solve just calls the solve again."""
    if tname == 'steady-state-init':
        if first:
            es.ParameterSolveInitialSteadyState = True
            es.ParameterInitialSteadyStateMaxTime = 3
        es.SolveEquation()
        return
    if len(es.VariableList) == 0:
        es.ExtractVariableList()
    es.SetInitialConditions()
    es.TimeSeries['x'][0] = SymReal(x0)
    for step in range(1, es.Parser.MaxTime + 1):
        es.SolveStep(step)


def history_case(item):
    hist, tname = item
    TARGET, FUNCS = TARGETS[tname]
    D = Driver(timeout_ms=15000, max_paths=4000, max_seconds=120)
    g = [z3.Real('g1'), z3.Real('g2')]
    x0 = z3.Real('x0')
    for v in g + [x0]:
        D.assume(v >= -50, v <= 50)
    out = {'hist': hist, 'target': tname, 'viol': None, 'unknown': 0, 'solved': 0}
    scratch = tempfile.mkdtemp(prefix='sfcverif_c17_')

    def fresh_reference():
        es = EquationSolver(TARGET, run_equation_reduction=True)
        for fname, fobj in FUNCS.items():
            es.AddFunction(fname, fobj)
        es.Parser.Exogenous.append(('G', [SymReal(g[0])] + [SymReal(v) for v in g]))
        public_solve(es, g, x0, tname)
        return es

    def path():
        Logger.cleanup()
        es = EquationSolver(run_equation_reduction=True)
        for fname, fobj in FUNCS.items():
            es.AddFunction(fname, fobj)
        resolve = False
        parsed = False
        for op in hist:
            if op == 'other-model':
                build_other_model()
            elif op == 'other-solver':
                o = EquationSolver(OTHER_FN)
                o.AddFunction('fn', lambda v: 100 * v + 7)      # same name as the target's function, different meaning
                o.SolveEquation()
            elif op == 'logs-on':
                try:
                    Logger.register_standard_logs(os.path.join(scratch, 'run'))
                except Exception:
                    pass
            elif op == 'logs-off':
                Logger.cleanup()
            elif op == 'trace':
                es.TraceStep = 1
            elif op == 're-solve':
                resolve = True
            elif op in ('re-parse', 're-parse-longer-horizon', 're-parse-shorter-horizon', 're-parse-after-block-with-initial-conditions'):
                # the solver object was used for another block before it is given the target block
                es.ParseString({'re-parse': OTHER, 're-parse-longer-horizon': OTHER_LONG, 're-parse-shorter-horizon': OTHER_SHORT,
                                're-parse-after-block-with-initial-conditions': OTHER_IC}[op])
                es.SolveEquation()
            elif op == 're-parse-after-diagnosed-block':
                # the earlier block was solved with step tracing and the steady-state search on; both are switched off again before the target block
                es.TraceStep = 1
                es.ParameterSolveInitialSteadyState = True
                es.ParameterInitialSteadyStateMaxTime = 3
                es.ParseString(OTHER)
                try:
                    es.SolveEquation()
                except ValueError:
                    pass
                es.TraceStep = None
                es.ParameterSolveInitialSteadyState = False
            elif op == 'target-first':
                pass
        es.ParseString(TARGET)
        if 'solver-between-parse-and-solve' in hist:
            o = EquationSolver(MID)
            o.AddFunction('fn', lambda v: 100 * v + 7)
            o.SolveEquation()
        if hist and hist[0] == 're-parse' or 're-parse' in hist:
            # public API only: the documented way to solve is SolveEquation(); exogenous symbolic values are injected first
            pass
        es.Parser.Exogenous.append(('G', [SymReal(g[0])] + [SymReal(v) for v in g]))
        try:
            public_solve(es, g, x0, tname)
            if resolve:
                # solve the same solver again (same settings as the first time)
                public_solve(es, g, x0, tname, first=False)
        except ValueError:
            Logger.cleanup()
            return 'raised'
        except Exception as ex:
            Logger.cleanup()
            if out['viol'] is None:
                out['viol'] = {'why': 'solving the target block after this history raises %r' % (ex,), 'vals': {'g1': '1', 'g2': '2', 'x0': '3'}}
            return 'crashed'
        ref = fresh_reference()
        Logger.cleanup()
        out['solved'] += 1
        want_vars = set(ref.TimeSeries.keys())
        got_vars = set(es.TimeSeries.keys())
        if tname != 'steady-state-init' and 'trace' not in hist:
            # the diagnostic series groups (step trace, steady-state search) belong to the block too: no variable of an earlier block in them
            aux = (set(es.TimeSeriesStepTrace.keys()) | set(es.TimeSeriesInitialSteadyState.keys())) - {'iteration', 'iteration_error', 'iteration_abs_change'}
            if not aux <= want_vars and out['viol'] is None:
                out['viol'] = {'why': 'the step-trace / steady-state groups still hold variables of the previous block: %r' % (sorted(aux - want_vars),), 'vals': {'g1': '1', 'g2': '2', 'x0': '3'}}
                return 'solved'
        if got_vars != want_vars:
            if out['viol'] is None:
                out['viol'] = {'why': 'reported variables %r, the block defines %r' % (sorted(got_vars), sorted(want_vars)), 'vals': {'g1': '1', 'g2': '2', 'x0': '3'}}
            return 'solved'
        props = []
        for v in want_vars:
            a, b = es.TimeSeries[v], ref.TimeSeries[v]
            if len(a) != len(b):
                if out['viol'] is None:
                    out['viol'] = {'why': 'series %s has %d points, history-free run %d' % (v, len(a), len(b)), 'vals': {'g1': '1', 'g2': '2', 'x0': '3'}}
                return 'solved'
            for p, q in zip(a, b):
                props.append(symx.lift(p) == symx.lift(q))
        r, m = D.holds(z3.And(props))
        if r == 'sat' and out['viol'] is None:
            out['viol'] = {'why': 'a series value differs from the history-free run',
                           'vals': {n: str(m.eval(v, model_completion=True)) for n, v in (('g1', g[0]), ('g2', g[1]), ('x0', x0))}}
        elif r == 'unknown':
            out['unknown'] += 1
        return 'solved'
    try:
        with StubRender():
            D.run_all(path)
    finally:
        Logger.cleanup()
        shutil.rmtree(scratch, ignore_errors=True)
    out.update(paths=D.paths, forks=D.forks, queries=D.queries, solver_s=D.solver_s, exhaustive=D.exhaustive, dunknown=D.unknown)
    return out


def histories(tier):
    ops = [o for o in OPS if o != 'target-first']
    out = [()]
    for n in (1, 2, 3):
        for h in itertools.product(ops, repeat=n):
            if n == 3 and tier == 'quick' and (stable_hash(h) % 7):
                continue
            if len(set(h)) < len(h):
                continue
            out.append(h)
    items = [(h, 'plain') for h in out]
    items += [(h, 'user-function') for h in out if len(h) <= (1 if tier == 'quick' else 2)]
    items += [(h, 'steady-state-init') for h in out if len(h) <= (1 if tier == 'quick' else 2)]
    items += [(h, 'dependent-first-decoratives') for h in out if len(h) <= (1 if tier == 'quick' else 2)]
    return items


REPLAY = '''
import sys, os, tempfile, shutil
from fractions import Fraction as F
from sfc_models.equation_solver import EquationSolver
from sfc_models.utils import Logger
from vf.props.c17 import TARGETS, OTHER, OTHER_LONG, OTHER_SHORT, OTHER_IC, OTHER_FN, MID, build_other_model
hist = %(hist)r
TARGET, FUNCS = TARGETS[%(tname)r]
vals = {k: float(F(v)) for k, v in %(vals)r.items()}
def run(es):
    es.Parser.Exogenous = [e for e in es.Parser.Exogenous if e[0] != 'G']
    es.Parser.Exogenous.append(('G', [vals['g1'], vals['g1'], vals['g2']]))
    if %(tname)r == 'steady-state-init':
        if not getattr(es, '_configured', False):
            es.ParameterSolveInitialSteadyState = True; es.ParameterInitialSteadyStateMaxTime = 3; es._configured = True
        es.SolveEquation(); return
    if len(es.VariableList) == 0: es.ExtractVariableList()
    es.SetInitialConditions(); es.TimeSeries['x'][0] = vals['x0']
    for step in (1, 2): es.SolveStep(step)
scratch = tempfile.mkdtemp(prefix='sfcverif_c17r_')
es = EquationSolver(run_equation_reduction=True); resolve = False
for f_, o_ in FUNCS.items(): es.AddFunction(f_, o_)
for op in hist:
    if op == 'other-model': build_other_model()
    elif op == 'other-solver':
        o_ = EquationSolver(OTHER_FN); o_.AddFunction('fn', lambda v: 100 * v + 7); o_.SolveEquation()
    elif op == 'logs-on': Logger.register_standard_logs(os.path.join(scratch, 'run'))
    elif op == 'logs-off': Logger.cleanup()
    elif op == 'trace': es.TraceStep = 1
    elif op == 're-solve': resolve = True
    elif op == 're-parse-after-diagnosed-block':
        es.TraceStep = 1; es.ParameterSolveInitialSteadyState = True; es.ParameterInitialSteadyStateMaxTime = 3; es.ParseString(OTHER)
        try: es.SolveEquation()
        except ValueError: pass
        es.TraceStep = None; es.ParameterSolveInitialSteadyState = False
    elif op.startswith('re-parse'): es.ParseString({'re-parse': OTHER, 're-parse-longer-horizon': OTHER_LONG, 're-parse-shorter-horizon': OTHER_SHORT, 're-parse-after-block-with-initial-conditions': OTHER_IC}[op]); es.SolveEquation()
try:
    es.ParseString(TARGET)
    if 'solver-between-parse-and-solve' in hist:
        o_ = EquationSolver(MID); o_.AddFunction('fn', lambda v: 100 * v + 7); o_.SolveEquation()
    run(es)
    if resolve: run(es)
except ValueError as e:
    print('value error', e); sys.exit(0)
except Exception as e:
    print('solving after history %%r raises %%r' %% (hist, e)); sys.exit(1)
Logger.cleanup(); shutil.rmtree(scratch, ignore_errors=True)
ref = EquationSolver(TARGET, run_equation_reduction=True)
for f_, o_ in FUNCS.items(): ref.AddFunction(f_, o_)
run(ref)
a = {v: list(es.TimeSeries[v]) for v in es.TimeSeries}; b = {v: list(ref.TimeSeries[v]) for v in ref.TimeSeries}
print('after history %%r:' %% (hist,), a); print('history-free      :', b)
aux = (set(es.TimeSeriesStepTrace.keys()) | set(es.TimeSeriesInitialSteadyState.keys())) - {'iteration', 'iteration_error', 'iteration_abs_change'}
remnants = sorted(aux - set(b)) if (%(tname)r != 'steady-state-init' and 'trace' not in hist) else []
if remnants: print('diagnostic series groups still hold variables of the previous block:', remnants)
sys.exit(1 if (a != b or remnants) else 0)
'''



# ---- a model under construction while something else happens in the process -------------------------------------------------------

def _other_started():
    Model()


def _other_half_built():
    m2 = Model(); c2 = Country(m2, 'ZZ', currency='ZED'); Sector(c2, 'S1'); Sector(c2, 'S2')


def _other_solver():
    o = EquationSolver(OTHER); o.SolveEquation()


INTERRUPTIONS = {'other-model-started': _other_started, 'other-model-half-built': _other_half_built, 'other-model-built-and-solved': build_other_model,
                 'other-solver-solved': _other_solver}
INTERLEAVE_PLANS = {'quick': ['sim', 'sim_caps_margin', 'pc', 'samezone_crossdemand', 'xz_gift_both', 'xz_imports', 'reg2', 'fed1'], 'thorough': None}


def interleave_work(item):
    """The system emitted for a topology must not depend on what else was built in the process while it was being declared."""
    from vf import zoo as Z
    from vf.emit import emit
    from vf.zoolib import compare_systems, param_names
    plan, order, tag = item
    rec = {'plan': plan.name, 'order': order, 'order_tag': tag, 'obs': [], 'solver_s': 0.0, 'queries': 0, 'builds': 0}
    with StubRender():
        ctx0 = Z.build(plan, order=order)
        em0 = emit(ctx0)
        if not em0.text:
            rec['build_error'] = repr(em0.err)
            return rec
        params = param_names(plan, ctx0, em0)
        n = len(plan.decls)
        for pos in range(1, n + 2):
            for iname in sorted(INTERRUPTIONS):
                rec['builds'] += 1
                try:
                    em = emit(Z.build(plan, order=order, interrupt=(pos, INTERRUPTIONS[iname])))
                    err = em.err if not em.text else None
                except Exception as ex:
                    err = ex
                what = '%s (order %s) with %s after %d declarations == undisturbed build' % (plan.name, tag, iname, pos)
                if err is not None:
                    rec['obs'].append({'kind': 'builds', 'what': what + ': raises %r' % (err,), 'verdict': 'sat', 'pos': pos, 'iname': iname})
                    continue
                if em.text == em0.text:
                    rec['obs'].append({'kind': 'identical-text', 'what': what, 'verdict': 'unsat', 'pos': pos, 'iname': iname})
                    continue
                obs, D = compare_systems(em0.parser, em.parser, params)
                rec['solver_s'] += D.solver_s
                rec['queries'] += D.queries
                for ob in obs:
                    ob.update(pos=pos, iname=iname, what=what + ': ' + ob['what'])
                    rec['obs'].append(ob)
    return rec


REPLAY_INTERLEAVE = '''
import sys
from vf.replaylib import get_plan
from vf import zoo as Z
from vf.emit import emit
from vf.props.c17 import INTERRUPTIONS
plan = get_plan(%(plan)r); order = %(order)r
base = emit(Z.build(plan, order=order), maxtime=3)
try:
    dist = emit(Z.build(plan, order=order, interrupt=(%(pos)d, INTERRUPTIONS[%(iname)r])), maxtime=3)
except Exception as e:
    print('disturbed build raises', repr(e)); sys.exit(1)
if base.err is not None:
    print('undisturbed build fails', repr(base.err)); sys.exit(0)
if dist.err is not None:
    print('disturbed build: Model.main() raises', repr(dist.err)); sys.exit(1)
A = dict(list(base.parser.Endogenous) + list(base.parser.Decoration)); B = dict(list(dist.parser.Endogenous) + list(dist.parser.Decoration))
print('%(iname)s after %(pos)d declarations of', plan.name)
if set(A) != set(B):
    print('variables differ: only undisturbed', sorted(set(A) - set(B))[:6], 'only disturbed', sorted(set(B) - set(A))[:6]); sys.exit(1)
ta, tb = base.ctx.model.EquationSolver.TimeSeries, dist.ctx.model.EquationSolver.TimeSeries
bad = [v for v in ta if v not in tb or list(ta[v]) != list(tb[v])]
for v in bad[:5]: print(v, list(ta[v]), 'vs', list(tb.get(v, [])))
diff = [v for v in A if ''.join(A[v].split()) != ''.join(B[v].split())]
for v in diff[:5]: print('equation of', v, ':', A[v], ' | ', B[v])
sys.exit(1 if (bad or diff) else 0)
'''


def model_logging_cases():
    """Model level: the series a solved model stores and hands out are the same whether or not the standard logs are registered, for every
    combination of the display settings stated BEFORE main() (time-zero suppression, cut-off).  Concrete runs (log writing formats numbers)."""
    import os
    import shutil
    import tempfile
    from vf import zoo as Z
    plans = [p for p in Z.zoo('quick') if p.name in ('sim', 'pc', 'xz_gift')]
    n, bad = 0, []
    for plan in plans:
        for suppress in (False, True):
            for cutoff in (None, 2):
                runs = []
                for logs in (False, True):
                    scratch = tempfile.mkdtemp(prefix='sfcverif_c17m_')
                    Logger.cleanup()
                    try:
                        ctx = Z.build(plan, maxtime=3)
                        m = ctx.model
                        m.TimeSeriesSupressTimeZero = suppress
                        m.TimeSeriesCutoff = cutoff
                        if logs:
                            Logger.register_standard_logs(os.path.join(scratch, 'run'))
                        try:
                            m.main()
                            stored = {v: list(m.EquationSolver.TimeSeries[v]) for v in m.EquationSolver.TimeSeries}
                            handed = {v: m.GetTimeSeries(v) for v in stored}
                            runs.append(('ok', stored, handed))
                        except Exception as e:
                            runs.append(('error', type(e).__name__, None))
                    finally:
                        Logger.cleanup()
                        shutil.rmtree(scratch, ignore_errors=True)
                n += 1
                if runs[0] != runs[1]:
                    if runs[0][0] == 'ok' and runs[1][0] == 'ok':
                        diff = [v for v in runs[0][1] if runs[0][1][v] != runs[1][1].get(v) or runs[0][2][v] != runs[1][2].get(v)]
                        why = 'series differ with logging on: %r' % (diff[:4],)
                    else:
                        why = 'outcome without logs %r, with logs %r' % (runs[0][:2], runs[1][:2])
                    bad.append((plan.name, suppress, cutoff, why))
    return n, bad


def id_offsets():
    """FinalEquations built at several values of the process-wide object counter must be textually equal."""
    from vf import zoo as Z
    from vf.emit import emit
    texts = {}
    for plan_name in ('pc', 'xz_gift_both', 'reg2'):
        plan = [p for p in Z.zoo('quick') if p.name == plan_name][0]
        for off in (0, 1, 9, 10, 123, 99999):
            EconomicObject.ID = off
            em = emit(Z.build(plan))
            texts.setdefault(plan_name, {})[off] = em.text
    bad = []
    for pn, d in texts.items():
        base = d[0]
        for off, t in d.items():
            if t != base:
                bad.append((pn, off))
    return sum(len(d) for d in texts.values()), bad


def run(tier, seed):
    chk = Check('C17', tier, 'model_checking', seed)
    chk.encode(EquationSolver.ParseString, EquationSolver.ExtractVariableList, EquationSolver.SetInitialConditions, EquationSolver.SolveStep,
               EquationSolver._SolveStep, EquationSolver.SolveEquation, sfc_models.utils.Logger.__init__, sfc_models.utils.Logger.cleanup,
               sfc_models.models.EconomicObject.__init__, sfc_models.models.Model.main)
    from vf import selfcheck
    selfcheck.run(chk)      # differential validation of the E2 value classes (trusted base) against plain floats
    hs = histories(tier)
    chk.bounds = {'histories': '%d (history, target block) pairs: sequences of <= 3 distinct operations from %r around the target solve' % (len(hs), [o for o in OPS if o != 'target-first']),
                  'target': TARGET.replace('\n', ' ; '), 'numeric domain': 'exogenous G(1), G(2) and x(0) symbolic reals in [-50, 50]; 2 periods',
                  'text clause': 'FinalEquations of 3 zoo topologies at object-ID offsets 0, 1, 9, 10, 123, 99999'}
    chk.assumptions = ['log files go to a scratch directory outside /repo and /verif (removed afterwards)', 'TimeSeriesHolder.GenerateCSVtext stubbed to "" in E2 runs']
    chk.outside = ['more than 3 history operations', 'threads / several processes']
    for st, o in pmap(history_case, hs):
        if st != 'ok':
            chk.harness_errors.append(o[:800])
            continue
        chk.count('paths', o['paths'])
        chk.count('forks', o['forks'])
        chk.solver_s += o['solver_s']
        chk.queries += o['queries']
        chk.count('solved_paths', o['solved'])
        what = 'history %r then target solve (%s block) == history-free target solve' % (o['hist'], o['target'])
        if not o['exhaustive'] or o['unknown'] or o['dunknown']:
            chk.ob('unknown', what)
        else:
            chk.ob('sat' if o['viol'] else 'unsat', what, distinct=tuple(o['hist']) + (o['target'],))
        if o['viol']:
            cls = 're-parse-remnants' if any(h_.startswith('re-parse') for h_ in o['hist']) and ('reported variables' in o['viol']['why'] or 'KeyError' in o['viol']['why']) else 'history:%r' % (o['hist'],)
            if o['target'] != 'plain' and 'trace' in o['hist'] and 'raises' in o['viol']['why']:
                cls = 'trace-with-user-function-crashes'
            chk.violation(cls, what + ': ' + o['viol']['why'], REPLAY % dict(hist=o['hist'], vals=o['viol']['vals'], tname=o['target']))
        if len(chk.samples) < 10:
            chk.sample({'history': o['hist'], 'paths': o['paths'], 'verdict': 'identical result terms on every path' if not o['viol'] else o['viol']['why']})
    chk.witness(chk.counters.get('solved_paths', 0) > 0, 'target solve returns on some path')
    from vf import zoo as Z
    from vf.zoolib import plan_orders
    plans = Z.zoo('quick')          # the thorough tier takes every hand-written topology (not the generated product: construction points x interruptions multiply)
    if INTERLEAVE_PLANS[tier]:
        plans = [p for p in plans if p.name in INTERLEAVE_PLANS[tier]]
    items = plan_orders(plans, 'quick')
    chk.bounds['construction interleavings'] = ('%d topologies x declaration orders (canonical, markets-first) x every construction point x %r: emitted system equivalent '
                                                'to the undisturbed build (identical text, else z3 system equivalence)' % (len(plans), sorted(INTERRUPTIONS)))
    for st, rec in pmap(interleave_work, items):
        if st != 'ok':
            chk.harness_errors.append(rec[:800])
            continue
        if 'build_error' in rec:
            chk.harness_errors.append('undisturbed build of %s fails: %s' % (rec['plan'], rec['build_error']))
            continue
        chk.solver_s += rec['solver_s']; chk.queries += rec['queries']
        chk.count('interleaved_builds', rec['builds'])
        for ob in rec['obs']:
            chk.ob(ob['verdict'], ob['what'], distinct=('interleave', rec['plan'], rec['order_tag'], ob['pos'], ob['iname'], ob['kind'], ob.get('var')))
            if ob['verdict'] == 'sat':
                chk.violation('interleave:%s:%s' % (rec['plan'], ob['iname']), ob['what'] + ' ' + str(ob.get('structural', '')),
                              REPLAY_INTERLEAVE % dict(plan=rec['plan'], order=rec['order'], pos=ob['pos'], iname=ob['iname']))
    chk.sample({'harness': 'construction interleavings', 'builds': chk.counters.get('interleaved_builds', 0), 'post': 'emitted system == undisturbed build'})
    n2, bad2 = model_logging_cases()
    chk.obligations += n2
    chk.discharged += n2 - len(bad2)
    chk.counters['model_logging_cases'] = n2
    chk.bounds['model-level logging'] = '%d cases: 3 topologies x time-zero suppression on/off x cut-off None/2 stated before main(), standard logs registered or not: stored and handed-out series identical' % n2
    for b in bad2:
        chk.violation('model-logging:%s:%r:%r' % b[:3], 'topology %s, TimeSeriesSupressTimeZero=%r, TimeSeriesCutoff=%r set before main(): %s' % b,
                      'import sys\nfrom vf.props.c17 import model_logging_cases\nn, bad = model_logging_cases()\nhit = [b for b in bad if b[:3] == %r]\nprint(hit)\nsys.exit(1 if hit else 0)\n' % (b[:3],))
    n, bad = id_offsets()
    chk.obligations += n
    chk.discharged += n - len(bad)
    chk.counters['id_offset_builds'] = n
    for pn, off in bad[:3]:
        chk.violation('id-offset:%s' % pn, 'FinalEquations of %s differ when the object counter starts at %d' % (pn, off),
                      'import sys\nfrom vf.props.c17 import id_offsets\nn, bad = id_offsets()\nprint(bad)\nsys.exit(1 if bad else 0)\n')
    chk.exhaustive = True
    return chk.finish()
