"""C03 equation reduction never changes any solution value.
E1: solution-set equivalence (two-sided entailment) of the reduced and the unreduced system for every block of a grammar,
lagged and exogenous values free (all k >= 1);  E3: k = 0 through the real SetInitialConditions with symbolic values."""
import itertools
import os

import z3

from vf import chx
from vf.common import Check, ROOT
from vf.eqsmt import to_z3, names_of, Untranslatable, Decider, val_fraction
from vf.par import pmap
from sfc_models.equation_parser import EquationParser
from sfc_models.equation_solver import EquationSolver
import sfc_models.equation_parser
import sfc_models.equation_solver

H = os.path.join(ROOT, 'vf', 'harness', 'c03_h.py')
HG = os.path.join(ROOT, 'vf', 'harness', 'c03_gen_h.py')
NAMES = ['x', 'xx', 'x_1']


def templates(v, others):
    o1, o2 = others
    return ['2.5', o1, o2, 'G', 'L', '+' + o1, ' %s ' % o2, '0.5*%s + 0.25*%s + 1' % (o1, o2), '-0.8*%s + 2' % o1, '0.5*%s + %s' % (v, o1),
            '%s*%s/4' % (o1, o2), 'fn(%s)' % o1, '%s + G' % o2, 'L + 1']


def blocks(tier):
    out = []
    T = {v: templates(v, [o for o in NAMES if o != v]) for v in NAMES}
    for combo in itertools.product(range(len(T['x'])), repeat=3):
        if tier == 'quick' and (combo[0] * 7 + combo[1] * 3 + combo[2]) % 3:
            continue
        for lagsrc in (('x',) if tier == 'quick' else ('x', 'x_1')):
            lines = ['%s = %s' % (v, T[v][i]) for v, i in zip(NAMES, combo)]
            lines.append('L = %s(k-1)' % lagsrc)
            ics = []
            if combo[0] % 2:
                ics.append('%s(0) = 1.5' % NAMES[combo[1] % 3])
            out.append('\n'.join(lines + ics + ['exogenous', 'G = [1., 2., 3.]']))
    # decorative chains / trees and a 4th variable
    extra = [
        "x = 0.5*x + G\nd1 = 2*x\nd2 = d1 + x\nd3 = d2*d1\nL = x(k-1)\nexogenous\nG = [1.,2.,3.]",
        "x = xx\nxx = x_1\nx_1 = 0.5*w + G\nw = x + 1\nL = w(k-1)\nexogenous\nG = [1.,2.,3.]",
        "x = xx\nxx = G\nx_1 = x + xx\nw = x_1\nL = w(k-1)\nexogenous\nG = [1.,2.,3.]",
        "x = L\nxx = x\nx_1 = xx + x\nL = x_1(k-1)\nexogenous\nG = [1.,2.,3.]",
        "t = x\nx = 0.5*x + G\nxx = t\nL = xx(k-1)\nexogenous\nG = [1.,2.,3.]",
        "x = y\ny = z\nz = x_1\nx_1 = 0.25*x + G\nL = y(k-1)\nexogenous\nG = [1.,2.,3.]",
    ]
    return out + extra


def chunk(bl):
    D = Decider(timeout_ms=20000)
    res = {'n': 0, 'rejected': 0, 'obs': 0, 'bad': [], 'unknown': [], 'samples': [], 'moved': 0}
    fn = z3.Function('uf_fn', z3.RealSort(), z3.RealSort())
    for text in bl:
        p0 = EquationParser()
        p0.ParseString(text)
        p1 = EquationParser()
        p1.ParseString(text)
        try:
            p1.ValidateInputs()
            p1.EquationReduction()
        except ValueError:
            res['rejected'] += 1      # equality loop: refused loudly, nothing to compare
            continue
        res['n'] += 1
        orig = list(p0.Endogenous)
        red = list(p1.Endogenous) + list(p1.Decoration)
        res['moved'] += len(p1.Decoration)
        problems = []
        if sorted(v for v, _ in orig) != sorted(v for v, _ in red):
            problems.append('variables of the reduced system %r differ from the original %r' % (sorted(v for v, _ in red), sorted(v for v, _ in orig)))
        if p0.Lagged != p1.Lagged or p0.Exogenous != p1.Exogenous or p0.InitialConditions != p1.InitialConditions or p0.MaxTime != p1.MaxTime:
            problems.append('lagged / exogenous / initial-condition / horizon lists changed')
        deco = {v for v, _ in p1.Decoration}
        try:
            for v, e in p1.Endogenous:
                used = set(names_of(e)) & deco
                if used:
                    problems.append('simultaneous equation of %s mentions decorative %r' % (v, sorted(used)))
            # decorative dependencies must be acyclic (the solver resolves them by repeated evaluation)
            dep = {v: set(names_of(e)) & deco for v, e in p1.Decoration}
            done = set()
            progress = True
            while progress:
                progress = False
                for v in dep:
                    if v not in done and dep[v] <= done | {v} - {v} | done:
                        if dep[v] <= done:
                            done.add(v)
                            progress = True
            if done != set(dep):
                problems.append('decorative equations depend on each other cyclically: %r' % sorted(set(dep) - done))
            VV = {}

            def var(n):
                if n not in VV:
                    VV[n] = z3.Real(n)
                return VV[n]
            funcs = {'fn': lambda a: fn(a)}
            consO = [var(v) == to_z3(e, var, funcs) for v, e in orig]
            consR = [var(v) == to_z3(e, var, funcs) for v, e in red]
        except Untranslatable as ex:
            res['unknown'].append((text, str(ex)))
            continue
        for side, prem, goals in (('original |= reduced', consO, consR), ('reduced |= original', consR, consO)):
            for g in goals:
                res['obs'] += 1
                if any(z3.eq(g, q) for q in prem):
                    continue
                r, m = D.decide(prem + [z3.Not(g)])
                if r == 'sat':
                    problems.append('%s fails for %s at %s' % (side, g, {n: str(val_fraction(m.eval(zv, model_completion=True))) for n, zv in VV.items()}))
                    break
                elif r != 'unsat':
                    res['unknown'].append((text, side))
        if problems:
            res['bad'].append((text, problems[0]))
        elif len(res['samples']) < 2 and p1.Decoration:
            res['samples'].append({'block': text, 'reduced_endogenous': p1.Endogenous, 'decoration': p1.Decoration, 'verdict': 'solution sets coincide'})
    res['solver_s'], res['queries'] = D.solver_s, D.queries
    return res


def sibling_of(block):
    """The same block (same variables, same structure) with every coefficient 0.5 replaced by 0.25 and every added constant 1 by 3."""
    import re
    return re.sub(r'\+ 1\b', '+ 3', block.replace('0.5*', '0.25*'))


def solver_equiv_case(case):
    """E2: the real solver on one block of the generated family, reduction on and off, exogenous values of k >= 1 symbolic, optional step tracing:
    every variable has the same value in every period k >= 1 (the blocks have no within-period simultaneity, so both runs are exact)."""
    from vf import symx
    from vf.symx import Driver, SymReal
    from vf.props.c15 import StubRender
    import sfc_models.equation_solver as ES
    idx, trace = case[:2]
    reuse = len(case) > 2 and case[2]
    from vf.harness.c03_gen import gen_blocks
    name, block = gen_blocks()[idx]
    D = Driver(timeout_ms=10000, max_paths=3000, max_seconds=200)
    g = [z3.Real('g1'), z3.Real('g2')]
    for v in g:
        D.assume(v >= -100, v <= 100)
    out = {'case': case, 'name': name, 'viol': None, 'unknown': 0, 'solved': 0}

    def path():
        ES.SYM_IC = 7.25
        ES.SYM_G = [2.0] + [SymReal(v) for v in g]
        res = []
        for reduce in (True, False):
            es = EquationSolver(run_equation_reduction=reduce)
            es.MaxTime = 2
            if reuse:
                # the solver object has a past: the same block with other coefficients (a parameter sweep) was parsed and solved on it first
                # (at concrete exogenous values: the past only has to have happened, it is not the subject)
                ES.SYM_G = [2.0, 1.0, 3.0]
                es.ParseString(sibling_of(block))
                try:
                    es.SolveEquation()
                except ValueError:
                    pass
                ES.SYM_G = [2.0] + [SymReal(v) for v in g]
            es.ParseString(block)
            if trace:
                es.TraceStep = trace
            try:
                es.SolveEquation()
            except ValueError:
                return 'raised'
            res.append(es.TimeSeries)
        out['solved'] += 1
        a, b = res
        if set(a) != set(b):
            if out['viol'] is None:
                out['viol'] = {'why': 'variables differ: %r vs %r' % (sorted(a), sorted(b)), 'g': ['1', '2']}
            return 'solved'
        # the unreduced run solves alias chains by iteration, so the two runs agree to the iteration tolerance (1e-8 relative per sweep), not exactly
        def close(x, y):
            x, y = symx.lift(x), symx.lift(y)
            d = z3.If(x - y >= 0, x - y, y - x)
            return d <= symx.rat(1e-5) * (1 + z3.If(x >= 0, x, -x) + z3.If(y >= 0, y, -y))
        props = [close(a[v][k], b[v][k]) for v in a for k in (0, 1, 2)]
        r, m = D.holds(z3.And(props))
        if r == 'sat' and out['viol'] is None:
            bad = [(v, k) for v in a for k in (0, 1, 2) if not z3.is_true(m.eval(close(a[v][k], b[v][k]), model_completion=True))]
            out['viol'] = {'why': 'reduction on / off give different values for %r' % (bad[:4],), 'g': [str(m.eval(v, model_completion=True)) for v in g]}
        elif r == 'unknown':
            out['unknown'] += 1
        return 'solved'
    with StubRender():
        D.run_all(path)
    out.update(paths=D.paths, queries=D.queries, solver_s=D.solver_s, exhaustive=D.exhaustive, dunknown=D.unknown)
    return out


def shadow_names():
    """Names that are visible in the namespace the solver evaluates equations in (module-level names of equation_solver.py) and that the
    parser does not refuse as variable names: a variable may carry such a name, and reduction must not change what it means."""
    import sfc_models.equation_solver as ES
    from sfc_models.utils import get_invalid_variable_names
    bad = set(get_invalid_variable_names())
    return sorted(n for n in vars(ES) if n.isidentifier() and not n.startswith('__') and n not in bad and not n.startswith('SYM_'))


def shadow_case(name):
    """Block with a variable called `name` in an alias chain; solved with reduction on and off (concrete values: outcome comparison)."""
    text = "y = 2*G\n%(n)s = y\na = %(n)s\nb = a + 1\nexogenous\nG = [2., 1., 3.]\nMaxTime = 2" % dict(n=name)
    res = []
    for reduce in (True, False):
        es = EquationSolver(run_equation_reduction=reduce)
        try:
            es.ParseString(text)
            es.SolveEquation()
            res.append({v: list(es.TimeSeries[v]) for v in es.TimeSeries})
        except (NameError, ValueError) as e:
            res.append('refused: %s' % type(e).__name__)
        except Exception as e:
            res.append('crashed: %r' % (e,))
    ok = res[0] == res[1] and not str(res[0]).startswith('crashed')
    return {'name': name, 'ok': ok, 'detail': 'reduction on: %s | reduction off: %s' % (str(res[0])[:200], str(res[1])[:200])}


REPLAY_SOLVER = '''
import sys
from fractions import Fraction as F
import sfc_models.equation_solver as ES
from sfc_models.equation_solver import EquationSolver
from vf.harness.c03_gen import gen_blocks
case = %(case)r
idx, trace = case[:2]
reuse = len(case) > 2 and case[2]
from vf.props.c03 import sibling_of
g = [float(F(x)) for x in %(g)r]
name, block = gen_blocks()[idx]
ES.SYM_IC = 7.25; ES.SYM_G = [2.0] + g
res = []
for reduce in (True, False):
    es = EquationSolver(run_equation_reduction=reduce); es.MaxTime = 2
    if reuse:
        ES.SYM_G = [2.0, 1.0, 3.0]
        es.ParseString(sibling_of(block))
        try: es.SolveEquation()
        except ValueError: pass
        ES.SYM_G = [2.0] + g
    es.ParseString(block)
    if trace: es.TraceStep = trace
    es.SolveEquation(); res.append({v: list(es.TimeSeries[v]) for v in es.TimeSeries})
a, b = res
bad = [v for v in a if v not in b or any(abs(x - y) > 1e-5 * (1 + abs(x) + abs(y)) * (1 - 1e-6) for x, y in zip(a[v], b[v]))]
print('block', name, 'trace step', trace)
for v in bad[:5]: print(v, 'reduction on', a[v], 'off', b.get(v))
sys.exit(1 if bad or set(a) != set(b) else 0)
'''

REPLAY = '''
import sys
from vf.props import c03
r = c03.chunk([%(text)r])
print(r['bad']); sys.exit(1 if r['bad'] else 0)
'''


def run(tier, seed):
    chk = Check('C03', tier, 'translation_validation', seed)
    EP = sfc_models.equation_parser.EquationParser
    chk.encode(EP.EquationReduction, EP.FindExactMatches, EP.MoveDecorative, EP.RebuildEquations, EP.GenerateTokenList, EP.CleanupRightHandSide,
               sfc_models.equation_solver.EquationSolver.SetInitialConditions)
    bl = blocks(tier)
    T = 120 if tier == 'quick' else 400
    chk.bounds = {'blocks': '%d: three prefix-sharing variables x 14 right-hand-side shapes each (literal, aliases of a variable / exogenous / lagged, signed and '
                  'spaced aliases, affine, self-referential, product, user function) + lag + optional initial condition; plus alias/decorative chains with 4 variables' % len(bl),
                  'k>=1': 'lagged and exogenous values free reals: solution sets of reduced and original system coincide on every variable',
                  'k=0': '8 block shapes through the real SetInitialConditions, reduction on vs off, initial-condition value and exogenous value symbolic floats in [-100,100] (CrossHair)'}
    chk.assumptions = ['blocks containing an equality loop are refused by the reducer with ValueError (outcome, nothing to compare)', 'user function fn uninterpreted']
    chk.outside = ['numerical agreement of the two iterative solves (they differ at tolerance level by construction)', 'blocks with more than 4 defined variables']
    n = 48
    tot = {'n': 0, 'rejected': 0, 'obs': 0, 'moved': 0}
    for st, r in pmap(chunk, [bl[i::n] for i in range(n)]):
        if st != 'ok':
            chk.harness_errors.append(r[:800])
            continue
        for k in tot:
            tot[k] += r[k]
        chk.solver_s += r['solver_s']
        chk.queries += r['queries']
        for s in r['samples']:
            chk.sample(s, cap=6)
        for text, why in r['unknown']:
            chk.inconclusive += 1
            chk.inconclusive_notes.append('%r: %s' % (text, why))
        for text, why in r['bad']:
            chk.violation('reduction:%s' % text.replace('\n', ';')[:120], 'block %r: %s' % (text, why), REPLAY % dict(text=text))
    chk.obligations += tot['obs']
    chk.discharged += tot['obs'] - chk.inconclusive - len(chk.violations)
    chk.counters.update(tot)
    chk.counters['programs'] = tot['n']
    chk.extra['programs'] = tot['n']
    chk.distinct = set(range(tot['n']))
    chk.witness(tot['moved'] > 100, 'reduction moved variables in many blocks')
    res = chx.run_file(H, timeout=T, workers=14)
    chx.absorb(chk, H, res)
    from vf.harness.c03_gen import gen_blocks
    gb = gen_blocks()
    only = None
    if tier == 'quick':
        # every second block of the generated family, both of the 'users' placements alternating
        only = {'check_k0_gen_%02d' % i for i in range(len(gb)) if i < 15 or (i // 2) % 2 == 0} | {'reach_k0_gen'}
    resg = chx.run_file(HG, timeout=T, only=only, workers=14)
    chx.absorb(chk, HG, resg)
    scases = [(i, tr) for i in range(len(gb)) for tr in (None, 2) if tier != 'quick' or (i % 3 == 0 or (i // 2) % 4 == 1)]
    # ... and on solver objects that parsed and solved a sibling of the block (same names, other coefficients) before
    scases += [(i, None, True) for i in range(len(gb)) if tier != 'quick' or i % 4 == 1]
    for st, o in pmap(solver_equiv_case, scases):
        if st != 'ok':
            chk.harness_errors.append(o[:800])
            continue
        chk.solver_s += o['solver_s']
        chk.queries += o['queries']
        chk.count('solver_equiv_paths', o['paths'])
        what = 'solver: block %s%s%s: reduction on == off in every period' % (o['name'], ' with step %d traced' % o['case'][1] if o['case'][1] else '',
                                                                                   ' on solvers that solved a sibling block before' if len(o['case']) > 2 and o['case'][2] else '')
        if not o['exhaustive'] or o['unknown'] or o['dunknown'] or not o['solved']:
            chk.ob('unknown', what)
        else:
            chk.ob('sat' if o['viol'] else 'unsat', what, distinct=('solver-equiv',) + tuple(o['case']))
        if o['viol']:
            chk.violation('solver-equiv:%s:%s' % (o['name'], 'traced' if o['case'][1] else ('reused' if len(o['case']) > 2 and o['case'][2] else 'plain')), what + ': ' + o['viol']['why'], REPLAY_SOLVER % dict(case=o['case'], g=o['viol']['g']))
    for nm in shadow_names():
        r = shadow_case(nm)
        chk.obligations += 1
        chk.count('shadow_name_cases')
        if r['ok']:
            chk.discharged += 1
        else:
            chk.violation('shadowing-variable-name', 'a variable named %r (a module-level name of the solver): %s' % (nm, r['detail']),
                          'import sys\nfrom vf.props.c03 import shadow_case\nr = shadow_case(%r)\nprint(r)\nsys.exit(0 if r["ok"] else 1)\n' % nm)
    chk.bounds['k>=1 through the solver'] = ('%d (block of the generated family, step tracing off / on) pairs: the real solver with reduction on and off, exogenous values of '
                                             'k = 1, 2 symbolic reals in [-100,100], every variable equal in every period up to 1e-5 relative (the unreduced run iterates alias chains to its tolerance)' % len(scases))
    chk.bounds['k=0 generated family'] = ('%d of %d generated blocks (one / two alias chains rooted in constant, exogenous, lagged, dynamic, initial-conditioned variable; '
                                          'target-first / target-last / mixed order; lag and decorative users), same symbolic values' % (len(resg) - 1, len(gb)))
    chk.exhaustive = True
    return chk.finish()
