"""C09 textbook models obey their difference equations for any parameters.
E1: inductive one-period equivalence of the emitted SIM / SIMEX1 / PC systems with the book's recursion (written here,
independently), all parameters / exogenous / lagged stocks symbolic.  E2: the hand-coded iterative SIM.
"""
import z3

from vf.common import Check
from vf.eqsmt import System, Decider, literal_params, val_fraction, Untranslatable
from vf.emit import emit
from vf.par import pmap
from vf.zoo import Ctx
import sfc_models.gl_book.chapter3 as ch3
import sfc_models.gl_book.chapter4 as ch4
import sfc_models.sector_definitions as sd
import sfc_models.sector


def build(name, overrides=None, book=False):
    B = {'SIM': ch3.SIM, 'SIMEX1': ch3.SIMEX1, 'PC': ch4.PC}[name]
    b = B('CA', use_book_exogenous=book)
    m = b.build_model()
    gov = 'TRE' if name == 'PC' else 'GOV'
    if not book:
        m.AddExogenous(gov, 'DEM_GOOD', '[20.]*5')
        if name == 'PC':
            m.AddExogenous('DEP', 'r', '[.025]*5')
    if overrides:
        hh, tf = m['CA']['HH'], m['CA']['TF']
        if 'a1' in overrides: hh.AlphaIncome = overrides['a1']
        if 'a2' in overrides: hh.AlphaFin = overrides['a2']
        if 'theta' in overrides: tf.TaxRate = overrides['theta']
    ctx = Ctx()
    ctx.model = m
    return ctx, gov


PARAMS = ['HH__AlphaIncome', 'HH__AlphaFin', 'TF__TaxRate', 'HH__L0', 'HH__L1', 'HH__L2']


def reference(name, S, gov):
    """The book's recursion, one period, on its own variables; lagged inputs shared with the emitted system."""
    V = lambda n: S.var(n, 'b')
    a1, a2, th = V('HH__AlphaIncome'), V('HH__AlphaFin'), V('TF__TaxRate')
    Y, T, YD, C, H = [z3.Real('ref_' + n) for n in ('Y', 'T', 'YD', 'C', 'H')]
    G = V(gov + '__DEM_GOOD')
    Hl = V('HH__LAG_F')
    ref = []
    goals = [('Y', 'GOOD__SUP_GOOD', Y), ('T', gov + '__T', T), ('T(hh)', 'HH__T', T), ('YD', 'HH__AfterTax', YD),
             ('C', 'HH__DEM_GOOD', C), ('H', 'HH__F', H)]
    adm = [a1 > 0, a1 < 1, a2 > 0, a2 < 1, th >= 0, th < 1]
    txt = {}
    if name == 'SIM':
        ref = [Y == C + G, T == th * Y, YD == Y - T, C == a1 * YD + a2 * Hl, H == Hl + YD - C]
        txt = 'Y=C+G; T=theta*Y; YD=Y-T; C=a1*YD+a2*H(-1); H=H(-1)+YD-C'
    elif name == 'SIMEX1':
        YDl = V('HH__LAG_AfterTax')
        ref = [Y == C + G, T == th * Y, YD == Y - T, C == a1 * YDl + a2 * Hl, H == Hl + YD - C]
        txt = 'Y=C+G; T=theta*Y; YD=Y-T; C=a1*YD(-1)+a2*H(-1); H=H(-1)+YD-C'
    else:
        l0, l1, l2 = V('HH__L0'), V('HH__L1'), V('HH__L2')
        Bl, rl, r = V('HH__LAG_DEM_DEP'), V('DEP__LAG_r'), V('DEP__r')
        B = z3.Real('ref_B')
        ref = [Y == C + G, YD == Y - T + rl * Bl, T == th * (Y + rl * Bl), C == a1 * YD + a2 * Hl, H == Hl + YD - C,
               B == H * (l0 + l1 * r - l2 * (YD / H))]
        goals += [('B', 'HH__DEM_DEP', B), ('M', 'HH__DEM_MON', H - B)]
        adm += [H != 0, V('HH__F') != 0]
        txt = 'Y=C+G; YD=Y-T+r(-1)*B(-1); T=theta*(Y+r(-1)*B(-1)); C=a1*YD+a2*V(-1); V=V(-1)+YD-C; B=V*(l0+l1*r-l2*YD/V); H=V-B'
    return ref, goals, adm, txt


def work(name):
    ctx, gov = build(name)
    em = emit(ctx)
    rec = {'model': name, 'obs': []}
    if not em.text:
        rec['build_error'] = repr(em.err)
        return rec
    params = literal_params(em.parser, PARAMS)
    rec['params'] = sorted(params)
    S = System(em.parser, params)
    try:
        cons = S.period('b')
    except Untranslatable as e:
        rec['untranslatable'] = str(e)
        return rec
    ref, goals, adm, txt = reference(name, S, gov)
    rec['reference'] = txt
    D = Decider(timeout_ms=60000)
    r0, _ = D.decide(cons + ref + adm, ladder=False)
    rec['reach'] = r0
    proved = []
    for gname, var, refv in goals:
        goal = S.var(var, 'b') == refv
        v, m = D.decide(cons + ref + adm + proved + [z3.Not(goal)])
        ob = {'kind': 'recursion-agrees', 'what': '%s: %s == book %s' % (name, var, gname), 'verdict': v, 'var': var}
        if v == 'unsat':
            proved.append(goal)
        if v == 'sat':
            cex = {}
            for (n, per), zv in S.V.items():
                cex['%s@%s' % (n, per)] = str(val_fraction(m.eval(zv, model_completion=True)))
            ob['cex'] = cex
            ob['ref'] = {str(d): str(val_fraction(m.eval(d(), model_completion=True))) for d in m.decls() if str(d).startswith('ref_')}
            ob['refname'] = gname
        rec['obs'].append(ob)
    rec['rungs'], rec['solver_s'], rec['queries'] = D.rungs, D.solver_s, D.queries
    rec['n_eq'] = len(S.endo)
    return rec


PARAM_SETS = [{'a1': 0.6123, 'a2': 0.3789, 'theta': 0.2345}, {'a1': 0.65432, 'a2': 1 / 3., 'theta': 0.123456789}, {'a1': 0.9, 'a2': 0.05, 'theta': 1e-5}]


def transport():
    """Parameter transport (concrete side-condition): the propensities and the tax rate handed to the sectors arrive in the emitted text value for value
    (short and long decimal expansions)."""
    out = []
    for name in ('SIM', 'SIMEX1', 'PC'):
        for i, ov in enumerate(PARAM_SETS):
            ctx, gov = build(name, ov)
            em = emit(ctx)
            eq = dict(em.parser.Endogenous)
            got = {k: eq.get(v) for k, v in (('a1', 'HH__AlphaIncome'), ('a2', 'HH__AlphaFin'), ('theta', 'TF__TaxRate'))}
            ok = all(got[k] is not None and float(got[k]) == ov[k] for k in ov)
            out.append(('%s:%d' % (name, i), ok, got))
    return out


def stock_transport():
    """Initial-stock transport (concrete side-condition): stated initial stocks are the k=0 values the solver starts from, and the
    first solved period obeys the book recursion evaluated from exactly those stocks (zero stocks included)."""
    out = []
    G, th, a1, a2 = 20.0, 0.2, 0.6, 0.4
    for name in ('SIM', 'SIMEX1', 'PC'):
        # the last element: the builder's own book stocks are stated first (use_book_exogenous), the user's afterwards - the later statement is the one in force
        for V0, B0, YD0, book in ((80.0, 50.0, 60.0, False), (80.0, 0.0, 60.0, False), (0.0, 0.0, 0.0, False), (40.0, 40.0, 16.0, False),
                                  (100.0, 72.0, 12.0, True), (40.0, 35.0, 100.0, True), (95.0, 70.0, 20.0, True)):
            ctx, gov = build(name, book=book)
            m = ctx.model
            m.AddInitialCondition('HH', 'F', V0)
            m.AddInitialCondition('HH', 'AfterTax', YD0)
            if name == 'PC':
                m.AddInitialCondition('HH', 'DEM_DEP', B0)
            m.MaxTime = 2
            try:
                m.main()
            except Exception as e:
                out.append((name, (V0, B0, YD0) + ((book,) if book else ()), False, 'main raises %r' % (e,)))
                continue
            ts = m.EquationSolver.TimeSeries
            ok = abs(ts['HH__F'][0] - V0) < 1e-12 and abs(ts['HH__AfterTax'][0] - YD0) < 1e-12
            if name == 'PC':
                ok = ok and abs(ts['HH__DEM_DEP'][0] - B0) < 1e-12
            # book recursion for k=1 from the stated stocks
            r0 = 0.025
            I = r0 * B0 if name == 'PC' else 0.0
            if name == 'SIMEX1':
                C = a1 * YD0 + a2 * V0
                Y = C + G
            else:
                Y = (G + a1 * (1 - th) * I + a2 * V0) / (1 - a1 * (1 - th))
            got = ts['GOOD__SUP_GOOD'][1]
            detail = 'k=0 stocks %r; Y(1) framework %.6f book %.6f' % ({v: ts[v][0] for v in ('HH__F', 'HH__AfterTax')}, got, Y)
            if not book:
                ok = ok and abs(got - Y) < 1e-3        # (with the book paths the k=1 spending and rate are the book's; only the stocks are compared)
            # the series as a user reads them (Model.GetTimeSeries), read three times over with time zero suppressed and once more without: the recursion is
            # stated about what is handed out, so every reading has to be the stored periods (round-9 seed C09-9: the hand-out shared the stored list)
            stored = {v: list(ts[v]) for v in ('GOOD__SUP_GOOD', 'HH__F', 'HH__AfterTax', 'HH__DEM_GOOD')}
            m.TimeSeriesSupressTimeZero = True
            for rep in range(3):
                for v in stored:
                    got_v = list(m.GetTimeSeries(v))
                    if got_v != stored[v][1:]:
                        ok = False
                        detail += '; reading %d of %s with time zero suppressed hands out %r, solved periods 1.. are %r' % (rep + 1, v, got_v, stored[v][1:])
            m.TimeSeriesSupressTimeZero = False
            for v in stored:
                if list(m.GetTimeSeries(v)) != stored[v]:
                    ok = False
                    detail += '; %s read after the suppressed readings is %r, solved %r' % (v, list(m.GetTimeSeries(v)), stored[v])
            out.append((name, (V0, B0, YD0) + ((book,) if book else ()), ok, detail))
    return out


def exogenous_transport():
    """Exogenous-path transport (concrete side-condition): whichever public route states the G / r paths - with or without the builder's own
    book paths installed first, once or twice (the later statement wins) - the emitted system carries exactly the path stated last."""
    from vf.zoolib import _exo_values
    out = []
    for name in ('SIM', 'SIMEX1', 'PC'):
        B = {'SIM': ch3.SIM, 'SIMEX1': ch3.SIMEX1, 'PC': ch4.PC}[name]
        gov = 'TRE' if name == 'PC' else 'GOV'
        for book in (False, True):
            for routes in (('code',), ('object',), ('sector',), ('code', 'sector'), ('sector', 'code'), ('object', 'code'), ('code', 'object')):
                m = B('CA', use_book_exogenous=book).build_model()
                targets = [(gov, 'DEM_GOOD', 21.5)] + ([('DEP', 'r', 0.0325)] if name == 'PC' else [])
                want = {}
                for i, route in enumerate(routes):
                    for code, var, base in targets:
                        path = [base + 0.5 * i + 0.25 * k for k in range(5)]
                        sec = m['CA'][code]
                        if route == 'code':
                            m.AddExogenous(code, var, repr(path))
                        elif route == 'object':
                            m.AddExogenous(sec, var, repr(path))
                        else:
                            sec.SetExogenous(var, repr(path))
                        want['%s__%s' % (code, var)] = path
                ctx = Ctx()
                ctx.model = m
                em = emit(ctx)
                got = _exo_values(em.parser) if em.text else {}
                ok = em.err is None and all(got.get(v) == p for v, p in want.items())
                out.append((name, book, routes, ok, 'emitted %r, stated last %r%s' % ({v: got.get(v) for v in want}, want, '' if em.err is None else '; raises %r' % (em.err,))))
    return out


REPLAY = '''
import sys
from fractions import Fraction as F
from vf.replaylib import check_period
from vf.props.c09 import build
from vf.emit import emit
name = %(name)r
ctx, gov = build(name)
em = emit(ctx)
vals = %(cex)r
ref = {k: F(v) for k, v in %(ref)r.items()}
params = {k[:-2]: F(v) for k, v in vals.items() if k.endswith('@*')}
b = dict({k[:-2]: F(v) for k, v in vals.items() if k.endswith('@b')}, **params)
bad = check_period(em.parser, b, None, params)
if bad:
    print('witness does not satisfy the emitted equations', bad[:4]); sys.exit(0)
# the book's recursion, evaluated independently at the same lagged inputs / parameters
a1, a2, th = b['HH__AlphaIncome'], b['HH__AlphaFin'], b['TF__TaxRate']
G, Hl = b[gov + '__DEM_GOOD'], b['HH__LAG_F']
if name == 'SIM':
    Y = (G + a2 * Hl) / (1 - a1 * (1 - th)); T = th * Y; YD = Y - T; C = a1 * YD + a2 * Hl
elif name == 'SIMEX1':
    C = a1 * b['HH__LAG_AfterTax'] + a2 * Hl; Y = C + G; T = th * Y; YD = Y - T
else:
    I = b['DEP__LAG_r'] * b['HH__LAG_DEM_DEP']
    Y = (G + a1 * (1 - th) * I + a2 * Hl) / (1 - a1 * (1 - th)); T = th * (Y + I); YD = Y - T + I; C = a1 * YD + a2 * Hl
H = Hl + YD - C
book = {'Y': Y, 'T': T, 'T(hh)': T, 'YD': YD, 'C': C, 'H': H}
if name == 'PC':
    B = H * (b['HH__L0'] + b['HH__L1'] * b['DEP__r'] - b['HH__L2'] * (YD / H)); book['B'] = B; book['M'] = H - B
got = b[%(var)r]; want = book[%(refname)r]
print(%(var)r, 'emitted system gives', float(got), 'book recursion gives', float(want))
sys.exit(1 if got != want else 0)
'''


def run(tier, seed):
    chk = Check('C09', tier, 'translation_validation', seed)
    chk.encode(ch3.SIM.build_model, ch3.SIMEX1.build_model, ch4.PC.build_model, sd.BaseHousehold.__init__,
               sd.HouseholdWithExpectations.__init__, sd.TaxFlow._GenerateEquations, sd.FixedMarginBusiness._GenerateEquations,
               sd.DepositMarket._GenerateEquations, sfc_models.sector.Sector.GenerateAssetWeighting)
    chk.bounds = {'models': ['SIM', 'SIMEX1', 'PC'], 'periods': 'one-period induction: arbitrary lagged stocks/income/rate -> all k>=1',
                  'numeric domain': 'alpha1, alpha2 in (0,1), theta in [0,1), lambda0..2, G_k, r_k, r_{k-1}, lagged stocks: all reals'}
    chk.assumptions = ['admissibility: 0<alpha1<1, 0<alpha2<1, 0<=theta<1; PC: wealth V != 0 (the book divides by it)',
                       'parameter transport (constructor argument -> literal in the emitted text) is checked concretely for values with short and long decimal expansions',
                       'initial stocks: the induction leaves lagged stocks free; that stated initial stocks (incl. zeros) become the k=0 state is a concrete side-check',
                       'exogenous paths: the induction leaves G_k and r_k free; that the path stated last through any public route (model.AddExogenous by code or object, sector.SetExogenous; after or without the builder`s book paths) is the one emitted is a concrete side-check']
    chk.outside = ['numerical agreement of the iterated series (C02 + this give it jointly)', 'off-grid parameter values (documented rounding)']
    for st, rec in pmap(work, ['SIM', 'SIMEX1', 'PC']):
        if st != 'ok':
            chk.harness_errors.append(rec[:600])
            continue
        chk.count('programs')
        if 'build_error' in rec or 'untranslatable' in rec:
            chk.harness_errors.append('%s: %s' % (rec['model'], rec.get('build_error') or rec.get('untranslatable')))
            continue
        chk.witness(rec['reach'] == 'sat', rec['model'] + ' + reference satisfiable')
        for ob in rec['obs']:
            chk.ob(ob['verdict'], ob['what'], distinct=ob['what'])
            chk.sample({'model': rec['model'], 'book_recursion': rec['reference'], 'obligation': ob['what'], 'verdict': ob['verdict'],
                        'freed_parameters': rec['params']}, cap=20)
            if ob['verdict'] == 'sat':
                chk.violation('%s:%s' % (rec['model'], ob['var']), '%s differs from the book recursion' % ob['what'],
                              REPLAY % dict(name=rec['model'], cex=ob['cex'], ref=ob['ref'], var=ob['var'], refname=ob['refname']))
        chk.solver_s += rec['solver_s']
        chk.queries += rec['queries']
    for name, ok, got in transport():
        chk.ob('unsat' if ok else 'sat', distinct=('transport', name))
        chk.count('transport_checks')
        if not ok:
            chk.violation('transport:' + name, 'parameters %r emitted as %s' % (PARAM_SETS[int(name.split(':')[1])], got),
                          'import sys\nfrom vf.props.c09 import transport\nr=[t for t in transport() if t[0]==%r][0]\nprint(r)\nsys.exit(0 if r[1] else 1)\n' % name)
    for name, stocks, ok, detail in stock_transport():
        chk.ob('unsat' if ok else 'sat', distinct=('stock-transport', name, stocks))
        chk.count('stock_transport_checks')
        if not ok:
            chk.violation('stock-transport:%s:%r' % (name, stocks), '%s with stated initial stocks (V, B, YD) = %r: %s' % (name, stocks, detail),
                          'import sys\nfrom vf.props.c09 import stock_transport\nr=[t for t in stock_transport() if t[0]==%r and t[1]==%r][0]\nprint(r)\nsys.exit(0 if r[2] else 1)\n' % (name, stocks))
    for name, book, routes, ok, detail in exogenous_transport():
        chk.ob('unsat' if ok else 'sat', distinct=('exogenous-transport', name, book, routes))
        chk.count('exogenous_transport_checks')
        if not ok:
            chk.violation('exogenous-transport:%s:book=%s:%s' % (name, book, '+'.join(routes)),
                          '%s (builder book paths %s) with the G / r paths stated through %s: %s' % (name, 'installed' if book else 'not installed', ' then '.join(routes), detail[:400]),
                          'import sys\nfrom vf.props.c09 import exogenous_transport\nr=[t for t in exogenous_transport() if t[:3]==(%r, %r, %r)][0]\nprint(r)\nsys.exit(0 if r[3] else 1)\n' % (name, book, routes))
    from vf.props import c09_iter
    c09_iter.run_into(chk, tier)
    chk.exhaustive = True
    return chk.finish()
