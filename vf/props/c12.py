"""C12 equation-building arithmetic preserves value. E2 (symbolic coefficients through the real Equation/Term code) + E1."""
import itertools

import z3

from vf import symx
from vf.symx import Driver, SymCoef
from vf.common import Check
from vf.eqsmt import to_z3, Untranslatable, Decider, val_fraction
from vf.par import pmap
from sfc_models.equation import Equation, Term
from sfc_models.utils import LogicError, create_equation_from_terms
import sfc_models.equation
import sfc_models.utils

LEADS = [None, '', 'x', 'x*y', '2*x', '(a+b)', 'a+b*x', '0.0', '-x', 'y/x']
PRE = ['x', 'y', 'x*y', '2', 'x/y', 'x/2', '3.14159265']
ADD = ['x', '+x', '-x', '(-x)', '-(x)', '-(-x)', '+(+x)', 'x*y', '-x/y', '2', '-2', 'x*2', ' - x ', 'y', '-(x*y)', 'a', 'y/x', 'y*x', '2*x', 'x/2', '-(2/x)',
       # numbers in every literal spelling, with more significant digits than any short float format keeps, and pairs that agree to six digits
       '1234567.5', '-0.0123456789', '3.14159265', '-3.14159312', '2.', '.5', '1e-7', '-(19500.125)', '1234567.5*x', 'x/0.0123456789']


def xenv(D):
    def env(n):
        if n in D.placeholders:
            return D.placeholders[n]
        return z3.Real('X_' + n)
    return env


def configs(tier):
    out = []
    maxpre = 2 if tier == 'quick' else 3
    for lead in LEADS:
        for r in range(0, maxpre + 1):
            for pi, pre in enumerate(itertools.combinations(PRE, r)):
                for ti, t in enumerate(ADD):
                    if tier == 'quick' and r == 2 and (pi + ti) % 2:
                        continue      # quick tier: every second (pair of merged terms, added term) combination
                    out.append((lead, pre, t))
    return out


def run_config(cfg):
    lead, pre, t = cfg
    D = Driver(timeout_ms=10000, max_paths=4000, max_seconds=120)
    cs = [z3.Real('c%d' % i) for i in range(len(pre))]
    D.assume(z3.Real('X_y') != 0, z3.Real('X_x') != 0)     # names used as divisors (z3 division is total)
    out = {'cfg': cfg, 'viol': None, 'unknown': 0, 'rejected': 0, 'accepted': 0}

    def path():
        eq = Equation('lhs', '', [Term(lead, is_blob=True)] if lead is not None else [])
        for p in pre:
            eq.AddTerm(p)
        nb = [tm for tm in eq.TermList if not tm.IsBlob]
        for tm, c in zip(nb, cs):
            tm.Constant = SymCoef(c)
        before = eq.RHS()
        try:
            eq.AddTerm(t)
        except (LogicError, SyntaxError, NotImplementedError):
            out['rejected'] += 1
            return 'rejected'
        after = eq.RHS()
        env = xenv(D)
        try:
            vb = to_z3(before, env)
            va = to_z3(after, env)
            vt = to_z3(t, env)
        except Untranslatable as e:
            if out['viol'] is None:
                out['viol'] = {'why': 'rendering does not parse: %s' % e, 'before': before, 'after': after, 'c': [0.0] * len(cs)}
            return 'unparsable'
        r, m = D.holds(va == vb + vt)
        out['accepted'] += 1
        if r == 'sat' and out['viol'] is None:
            out['viol'] = {'why': 'value(after) != value(before) + value(term)', 'before': before, 'after': after,
                           'c': [str(val_fraction(m.eval(c, model_completion=True))) for c in cs]}
        elif r == 'unknown':
            out['unknown'] += 1
        return 'ok'
    D.run_all(path)
    out.update(paths=D.paths, forks=D.forks, queries=D.queries, solver_s=D.solver_s, exhaustive=D.exhaustive, dunknown=D.unknown)
    return out


def chunk(cfgs):
    return [run_config(c) for c in cfgs]


# ---- create_equation_from_terms ----------------------------------------------------------------------------------------------

TERMS = ['x', '+x', '-x', ' y', '(b+c)', '-(b+c)', '1e+5*x', '2', '-x*y', 'x/y', '+ x', '+(b+c)*x']


def term_lists(tier):
    out = [[]]
    for n in (1, 2, 3):
        for tl in itertools.product(TERMS, repeat=n):
            out.append(list(tl))
    return out


def cet_chunk(lists):
    D = Decider()
    bad = []
    n = 0
    for tl in lists:
        arg = list(tl)
        try:
            res = create_equation_from_terms(arg)
        except Exception as e:
            bad.append((tl, 'raises %r' % (e,)))
            continue
        n += 1
        if arg != tl:
            bad.append((tl, 'argument list rewritten in place to %r' % (arg,)))
        env = lambda nme: z3.Real('X_' + nme)
        try:
            want = z3.RealVal(0)
            for tm in tl:
                want = want + to_z3(tm, env)
            got = to_z3(res, env) if res.strip() else z3.RealVal(0)
        except Untranslatable as e:
            bad.append((tl, 'result %r does not parse: %s' % (res, e)))
            continue
        if not z3.eq(z3.simplify(got - want), z3.RealVal(0)):
            r, m = D.decide([got != want, z3.Real('X_y') != 0], ladder=False, timeout_ms=10000)
            if r == 'sat':
                bad.append((tl, 'result %r is not the sum of the terms' % (res,)))
            elif r != 'unsat':
                bad.append((tl, 'unknown'))
    return {'n': n, 'bad': bad, 'solver_s': D.solver_s, 'queries': D.queries}



# ---- histories over caller-held Term objects and two equations -------------------------------------------------------------------

OBJ_PAIRS = [('x', 'x'), ('x', '-x'), ('x*y', 'y*x'), ('x', 'y'), ('-(a*b)', 'a*b'), ('x/y', '-x')]
OBJ_LEADS = [None, 'x^2', 'x']
STR_ARGS = ['x', '-y']


def obj_histories(tier):
    L = 3 if tier == 'quick' else 4
    ops = [(e, a) for e in (0, 1) for a in ('T0', 'T1', 'S0', 'S1')]
    out = []
    for pi, pair in enumerate(OBJ_PAIRS):
        for li, lead in enumerate(OBJ_LEADS):
            for n in (2, 3) if L == 3 else (2, 3, 4):
                for hi, h in enumerate(itertools.product(ops, repeat=n)):
                    if not any(a[0] == 'T' for _, a in h):
                        continue
                    if tier == 'quick' and (hi + pi + li) % 4:
                        continue
                    if n == 4 and (hi + pi) % 6:
                        continue
                    out.append((pair, lead, h, 'add'))
            # the documented constructor form: Equation(lhs, desc, rhs=(Term objects ...))
            for h in itertools.product(('T0', 'T1', 'S0'), repeat=3):
                out.append((pair, lead, tuple((0, a) for a in h), 'ctor'))
    return out


def run_history(cfg):
    pair, lead, hist, mode = cfg
    D = Driver(timeout_ms=10000, max_paths=4000, max_seconds=120)
    c = [z3.Real('c0'), z3.Real('c1')]
    D.assume(z3.Real('X_y') != 0, z3.Real('X_x') != 0)
    out = {'cfg': cfg, 'viol': None, 'unknown': 0, 'accepted': 0, 'rejected': 0}

    def path():
        env = xenv(D)
        T = [Term(pair[0]), Term(pair[1])]
        sign = [T[0].Constant, T[1].Constant]          # the parsed sign of the spelling (+1.0 / -1.0)
        text = [T[0].Term, T[1].Term]
        for i in (0, 1):
            T[i].Constant = SymCoef(c[i])
        held = [c[0], c[1]]
        want = [z3.RealVal(0), z3.RealVal(0)]
        mk = lambda: [Term(lead, is_blob=True)] if lead is not None else []
        try:
            if mode == 'ctor':
                args = [T[int(a[1])] if a[0] == 'T' else STR_ARGS[int(a[1])] for _, a in hist]
                eqs = [Equation('lhs', '', mk() + args), Equation('other', '', mk())]
            else:
                eqs = [Equation('lhs', '', mk()), Equation('other', '', mk())]
            for e, a in hist:
                if a[0] == 'T':
                    i = int(a[1])
                    if mode != 'ctor':
                        eqs[e].AddTerm(T[i])
                    want[e] = want[e] + c[i] * to_z3(text[i], env)
                else:
                    if mode != 'ctor':
                        eqs[e].AddTerm(STR_ARGS[int(a[1])])
                    want[e] = want[e] + to_z3(STR_ARGS[int(a[1])], env)
        except (LogicError, SyntaxError, NotImplementedError):
            out['rejected'] += 1
            return 'rejected'
        leadv = to_z3(lead.replace('^', '**'), env) if lead is not None else z3.RealVal(0)
        goals = []
        for e in (0, 1):
            try:
                got = to_z3(eqs[e].RHS().replace('^', '**'), env)
            except Untranslatable as ex:
                if out['viol'] is None:
                    out['viol'] = {'why': 'rendering of equation %d does not parse: %s' % (e, ex), 'c': ['1', '1']}
                return 'unparsable'
            goals.append(got == leadv + want[e])
        for i in (0, 1):
            k = T[i].Constant
            goals.append((k.e if isinstance(k, symx.SymReal) else z3.RealVal(k)) == held[i])
        r, m = D.holds(z3.And(goals))
        out['accepted'] += 1
        if r == 'sat' and out['viol'] is None:
            which = [i for i, g in enumerate(goals) if not z3.is_true(m.eval(g, model_completion=True))]
            what = ['equation 0 value', 'equation 1 value', "caller's Term object 0 coefficient changed", "caller's Term object 1 coefficient changed"]
            out['viol'] = {'why': '; '.join(what[i] for i in which) or 'post fails', 'c': [str(val_fraction(m.eval(ci, model_completion=True))) for ci in c],
                           'rhs': [eqs[0].RHS(), eqs[1].RHS()]}
        elif r == 'unknown':
            out['unknown'] += 1
        return 'ok'
    D.run_all(path)
    out.update(paths=D.paths, forks=D.forks, queries=D.queries, solver_s=D.solver_s, exhaustive=D.exhaustive, dunknown=D.unknown)
    return out


def hist_chunk(cfgs):
    return [run_history(c) for c in cfgs]


REPLAY_HIST = '''
import sys, random
from fractions import Fraction as F
from sfc_models.equation import Equation, Term
pair, lead, hist, mode, cs = %(pair)r, %(lead)r, %(hist)r, %(mode)r, %(cs)r
STR_ARGS = %(strs)r
T = [Term(pair[0]), Term(pair[1])]
text = [T[0].Term, T[1].Term]
cf = [float(F(x)) for x in cs]
for i in (0, 1): T[i].Constant = cf[i]
mk = lambda: [Term(lead, is_blob=True)] if lead is not None else []
if mode == 'ctor':
    eqs = [Equation('lhs', '', mk() + [T[int(a[1])] if a[0] == 'T' else STR_ARGS[int(a[1])] for _, a in hist]), Equation('other', '', mk())]
else:
    eqs = [Equation('lhs', '', mk()), Equation('other', '', mk())]
    for e, a in hist:
        eqs[e].AddTerm(T[int(a[1])] if a[0] == 'T' else STR_ARGS[int(a[1])])
bad = False
for i in (0, 1):
    if T[i].Constant != cf[i]:
        print("caller's Term object %%d: coefficient was %%r, is now %%r" %% (i, cf[i], T[i].Constant)); bad = True
rnd = random.Random(5)
for trial in range(5):
    env = {n: rnd.uniform(0.5, 3.0) for n in 'xyab'}
    ev = lambda t: eval(t.replace('^', '**'), {}, env)
    want = [ev(lead) if lead is not None else 0.0, ev(lead) if lead is not None else 0.0]
    for e, a in hist:
        want[e] += cf[int(a[1])] * ev(text[int(a[1])]) if a[0] == 'T' else ev(STR_ARGS[int(a[1])])
    for e in (0, 1):
        got = ev(eqs[e].RHS())
        if abs(got - want[e]) > 1e-9 * (1 + abs(got) + abs(want[e])):
            print('equation %%d renders %%r = %%r, lead + signed sum of the added terms = %%r at %%r' %% (e, eqs[e].RHS(), got, want[e], env)); bad = True
    if bad: break
print('history', hist, 'objects', pair, 'coefficients', cf)
sys.exit(1 if bad else 0)
'''


# ---- histories on a Sector's equation: terms added, the right-hand side restated, terms added again -----------------------------

SEC_TERMS = ['x', '-x', 'x*y', '-(x*y)', 'y', '2']
SEC_LEADS = ['a*b', '', 'x']


def sector_histories(tier):
    ops = [('T', t) for t in SEC_TERMS] + [('R', l) for l in SEC_LEADS]
    out = []
    L = 3 if tier == 'quick' else 4
    for n in range(2, L + 1):
        for hi, h in enumerate(itertools.product(ops, repeat=n)):
            if not any(o == 'R' for o, _ in h[1:]) or h[0][0] != 'T':
                continue        # the interesting histories restate the right-hand side AFTER something was added
            if n == 4 and hi % 5:
                continue
            out.append(h)
    return out


def sector_hist_chunk(hs):
    from sfc_models.models import Model, Country
    from sfc_models.sector import Sector
    bad = []
    n = 0
    env = lambda nme: z3.Real('X_' + nme)
    D = Decider()
    for h in hs:
        m = Model(); c = Country(m, 'CO'); s = Sector(c, 'S')
        s.AddVariable('V', 'built up', '')
        want = z3.RealVal(0)
        try:
            for op, arg in h:
                if op == 'T':
                    s.AddTermToEquation('V', arg)
                    want = want + to_z3(arg, env)
                else:
                    s.SetEquationRightHandSide('V', arg)
                    want = to_z3(arg, env) if arg.strip() else z3.RealVal(0)
        except (LogicError, SyntaxError, NotImplementedError):
            continue
        n += 1
        rhs = s.EquationBlock['V'].RHS()
        try:
            got = to_z3(rhs, env) if rhs.strip() else z3.RealVal(0)
        except Untranslatable as e:
            bad.append((h, 'rendering %r does not parse: %s' % (rhs, e)))
            continue
        if not z3.eq(z3.simplify(got - want), z3.RealVal(0)):
            r, mdl = D.decide([got != want], ladder=False, timeout_ms=10000)
            if r == 'sat':
                bad.append((h, 'V renders %r, which is not the restated right-hand side plus the terms added after it' % (rhs,)))
            elif r != 'unsat':
                bad.append((h, 'unknown'))
    return {'n': n, 'bad': bad, 'solver_s': D.solver_s, 'queries': D.queries}


# ---- the string constructor: Equation(lhs, rhs=<expression text>) then terms added ---------------------------------------------------------------

CTOR_LEADS = ['a < b', 'a >= b', '-a < b', 'a == b', '(x)*(y)', '(a)/(b)', 'x*y', '(a+b)', 'a+b*x', '-x', '(-x)*y', '((a))', '(a+b)*(x-y)', 'x*(y)', '-(x)*(y)', '2*x', 'a*b - 1']
CTOR_TERMS = ['y', '-x', 'x*y', '2']


# leads stated in the ONE-string form Equation('z = <lead>'), with a comparison (a second '=') inside
ONESTRING_LEADS = ['a >= b', 'a < b', '(a >= b)*c', 'c*(a <= b)', '(a == b)*c', '(a != b) + c', 'x*y', '(a+b)']


def ctor_cases(tier):
    out = [(lead, ts) for lead in CTOR_LEADS for n in (0, 1, 2) for ts in itertools.product(CTOR_TERMS, repeat=n)]
    out += [('=' + lead, ts) for lead in ONESTRING_LEADS for n in (0, 1) for ts in itertools.product(CTOR_TERMS, repeat=n)]
    return out


def ctor_chunk(cases):
    bad = []
    n = 0
    env = lambda nme: z3.Real('X_' + nme)
    D = Decider()
    for lead, ts in cases:
        onestring = lead.startswith('=')
        if onestring:
            lead = lead[1:]
        try:
            eq = Equation('z = ' + lead) if onestring else Equation('z', '', lead)
            for t in ts:
                eq.AddTerm(t)
            rhs = eq.RHS()
        except (LogicError, SyntaxError, NotImplementedError) as e:
            continue            # a documented refusal
        except Exception as e:
            bad.append((lead, ts, 'raises %r' % (e,)))
            continue
        n += 1
        try:
            got = to_z3(rhs, env, opaque=True)
            want = to_z3(lead, env, opaque=True)
            for t in ts:
                want = want + to_z3(t, env)
        except Untranslatable as e:
            bad.append((('=' if onestring else '') + lead, ts, 'rendering %r does not parse: %s' % (rhs, e)))
            continue
        if onestring:
            lead = '=' + lead
        if not z3.eq(z3.simplify(got - want), z3.RealVal(0)):
            r, mdl = D.decide([got != want, env('b') != 0, env('y') != 0, env('x') != 0], ladder=False, timeout_ms=10000)
            if r == 'sat':
                bad.append((lead, ts, 'renders %r, which is not the leading expression plus the added terms' % (rhs,)))
            elif r != 'unsat':
                bad.append((lead, ts, 'unknown'))
    return {'n': n, 'bad': bad, 'solver_s': D.solver_s, 'queries': D.queries}


REPLAY_CTOR = """
import sys, random
from sfc_models.equation import Equation
lead, ts = %(case)r
onestring = lead.startswith('=')
if onestring: lead = lead[1:]
try:
    eq = Equation('z = ' + lead) if onestring else Equation('z', '', lead)
    for t in ts: eq.AddTerm(t)
    rhs = eq.RHS()
except Exception as e:
    print('Equation(%%r) + %%r raises %%r' %% (lead, ts, e)); sys.exit(1)
print('Equation(%%r) + %%r renders %%r' %% (lead, ts, rhs))
rnd = random.Random(11); bad = False
for i in range(5):
    env = {n: rnd.uniform(0.5, 3.0) for n in 'xyab'}
    try:
        got = eval(rhs, {}, env)
    except Exception as e:
        print('the rendering is not a valid expression:', repr(e)); bad = True; break
    want = eval('(%%s)' %% lead, {}, env) + sum(eval('(%%s)' %% t, {}, env) for t in ts)
    if abs(got - want) > 1e-9 * (1 + abs(got) + abs(want)): print('at', env, 'renders', got, 'expected', want); bad = True; break
sys.exit(1 if bad else 0)
"""

# ---- cash flows: Sector.AddCashFlow feeds the F and (income flows) the INC equation of a sector ------------------------------------

CASH_TERMS = ['x', '+x', '-x', '(x)', '-(x)', '(-x)', '+(-x)', '-(-x)', ' - ( - x )', '( -x)', 'y', '-y']


def cash_histories(tier):
    out = []
    for n in (1, 2, 3):
        for hi, h in enumerate(itertools.product(CASH_TERMS, repeat=n)):
            if n == 3 and tier == 'quick' and hi % 7:
                continue
            for inc in ([True] * n, [False] * n, [i % 2 == 0 for i in range(n)]):
                out.append(tuple(zip(h, inc)))
    return sorted(set(out))


def cash_hist_chunk(hs):
    from sfc_models.models import Model, Country
    from sfc_models.sector import Sector
    bad = []
    n = 0
    env = lambda nme: z3.Real('X_' + nme)
    D = Decider()
    for h in hs:
        m = Model(); c = Country(m, 'CO'); s = Sector(c, 'S')
        want = {'F': z3.Real('X_LAG_F'), 'INC': z3.RealVal(0)}
        try:
            for term, inc in h:
                s.AddCashFlow(term, is_income=inc)
                want['F'] = want['F'] + to_z3(term, env)
                if inc:
                    want['INC'] = want['INC'] + to_z3(term, env)
        except (LogicError, SyntaxError, NotImplementedError):
            continue
        n += 1
        for var in ('F', 'INC'):
            rhs = s.EquationBlock[var].RHS()
            try:
                got = to_z3(rhs, env) if rhs.strip() else z3.RealVal(0)
            except Untranslatable as e:
                bad.append((h, '%s rendering %r does not parse: %s' % (var, rhs, e)))
                break
            if not z3.eq(z3.simplify(got - want[var]), z3.RealVal(0)):
                r, mdl = D.decide([got != want[var]], ladder=False, timeout_ms=10000)
                if r == 'sat':
                    bad.append((h, '%s renders %r, which is not %sthe signed sum of the cash flows added' % (var, rhs, 'LAG_F plus ' if var == 'F' else '')))
                    break
                elif r != 'unsat':
                    bad.append((h, 'unknown'))
                    break
    return {'n': n, 'bad': bad, 'solver_s': D.solver_s, 'queries': D.queries}


REPLAY_CASH = """
import sys, random
from sfc_models.models import Model, Country
from sfc_models.sector import Sector
h = %(h)r
m = Model(); c = Country(m, 'CO'); s = Sector(c, 'S')
for term, inc in h: s.AddCashFlow(term, is_income=inc)
rnd = random.Random(11); bad = False
for var in ('F', 'INC'):
    rhs = s.EquationBlock[var].RHS()
    parts = [t for t, inc in h if inc or var == 'F']
    print(var, '=', repr(rhs), '; expected', 'LAG_F plus' if var == 'F' else '', 'the sum of', parts)
    for i in range(5):
        env = {n: rnd.uniform(0.5, 3.0) for n in ('x', 'y', 'LAG_F')}
        got = eval(rhs, {}, env) if rhs.strip() else 0.0
        want = sum(eval('(%%s)' %% p.strip(), {}, env) for p in parts) + (env['LAG_F'] if var == 'F' else 0.0)
        if abs(got - want) > 1e-9 * (1 + abs(got) + abs(want)): print('at', env, 'renders', got, 'expected', want); bad = True; break
sys.exit(1 if bad else 0)
"""


REPLAY_SECTOR = '''
import sys, random
from sfc_models.models import Model, Country
from sfc_models.sector import Sector
h = %(h)r
m = Model(); c = Country(m, 'CO'); s = Sector(c, 'S'); s.AddVariable('V', 'built up', '')
parts = []
for op, arg in h:
    if op == 'T': s.AddTermToEquation('V', arg); parts.append(arg)
    else: s.SetEquationRightHandSide('V', arg); parts = [arg] if arg.strip() else []
rhs = s.EquationBlock['V'].RHS()
print('history', h, '->', repr(rhs), '; expected the sum of', parts)
rnd = random.Random(11); bad = False
for i in range(5):
    env = {n: rnd.uniform(0.5, 3.0) for n in 'xyab'}
    got = eval(rhs, {}, env) if rhs.strip() else 0.0
    want = sum(eval('(%%s)' %% p, {}, env) for p in parts)
    if abs(got - want) > 1e-9 * (1 + abs(got) + abs(want)): print('at', env, 'renders', got, 'expected', want); bad = True; break
sys.exit(1 if bad else 0)
'''

REPLAY_ADD = '''
import sys
from sfc_models.equation import Equation, Term
lead, pre, t, cs = %(lead)r, %(pre)r, %(t)r, %(cs)r
from fractions import Fraction as F
eq = Equation('lhs', '', [Term(lead, is_blob=True)] if lead is not None else [])
for p in pre: eq.AddTerm(p)
nb = [tm for tm in eq.TermList if not tm.IsBlob]
for tm, c in zip(nb, cs): tm.Constant = float(F(c))
before = eq.RHS(); eq.AddTerm(t); after = eq.RHS()
print('before %%r  + term %%r  -> after %%r' %% (before, t, after))
import random
rnd = random.Random(7)
bad = False
for i in range(5):
    env = {n: rnd.uniform(0.5, 3.0) for n in 'xyab'}
    try:
        va, vb, vt = eval(after, {}, env), eval(before, {}, env), eval(t, {}, env)
    except SyntaxError:
        print('rendering does not parse'); bad = True; break
    if abs(va - (vb + vt)) > 1e-9 * (1 + abs(va) + abs(vb) + abs(vt)):
        print('at', env, 'after =', va, 'before + term =', vb + vt); bad = True; break
sys.exit(1 if bad else 0)
'''

REPLAY_CET = '''
import sys
from sfc_models.utils import create_equation_from_terms
tl = %(tl)r
arg = list(tl)
res = create_equation_from_terms(arg)
print('create_equation_from_terms(%%r) -> %%r ; argument afterwards %%r' %% (tl, res, arg))
bad = arg != tl
import random
rnd = random.Random(3)
for i in range(5):
    env = {n: rnd.uniform(0.5, 3.0) for n in 'xybc'}
    try:
        got = eval(res, {}, env) if res.strip() else 0.0
    except SyntaxError:
        print('result does not parse'); bad = True; break
    want = sum(eval(t, {}, env) for t in tl)
    if abs(got - want) > 1e-9 * (1 + abs(got) + abs(want)):
        print('at', env, 'result =', got, 'sum of terms =', want); bad = True; break
sys.exit(1 if bad else 0)
'''


def classify_add(cfg, viol):
    lead, pre, t = cfg
    tt = Term(t).Term if True else t
    if lead is not None and tt == lead.replace(' ', ''):
        return 'AddTerm:merge-into-opaque-lead'
    return 'AddTerm:lead=%r:pre=%r:term=%r' % (lead, pre, t)


def classify_cet(tl, why):
    if 'rewritten in place' in why:
        return 'create_equation_from_terms:argument-mutated'
    if tl and '+' in tl[0].strip()[1:]:
        return 'create_equation_from_terms:first-term-interior-plus'
    return 'create_equation_from_terms:%r' % (tl,)


def run(tier, seed):
    chk = Check('C12', tier, 'model_checking', seed)
    chk.encode(Equation.AddTerm, Equation.GetRightHandSide, Term.__init__, Term.__str__, create_equation_from_terms)
    from vf import selfcheck
    selfcheck.run_coef(chk)      # differential validation of the E2 value class against the plain run (trusted base)
    cfgs = configs(tier)
    chk.bounds = {'AddTerm inductive step': '%d configurations: opaque lead in %r x up to %d merged terms from %r with SYMBOLIC real coefficients x added term in %r'
                  % (len(cfgs), LEADS, 2 if tier == 'quick' else 3, PRE, ADD),
                  'create_equation_from_terms': 'all lists of length <= 3 over %r' % (TERMS,),
                  'numeric domain': 'all real coefficients (any accumulated multiplicity incl. 0, +-1), all real valuations of the names'}
    chk.assumptions = ['names used as divisors are non-zero (z3 division is total; Python would raise)', 'pre-state: an equation with an opaque lead and merged terms (possibly spelled like the lead) with arbitrary coefficients; '
                       'histories of any length are covered by the inductive step because coefficients are arbitrary',
                       'terms rejected by the real Term parser (LogicError/SyntaxError/NotImplementedError) are outside the property']
    chk.outside = ['terms with more than one operator', 'coefficients that overflow to inf']
    n = 48
    res = pmap(chunk, [cfgs[i::n] for i in range(n)])
    diff = 0
    for st, lst in res:
        if st != 'ok':
            chk.harness_errors.append(lst[:800])
            continue
        for o in lst:
            chk.count('paths', o['paths'])
            chk.count('forks', o['forks'])
            chk.solver_s += o['solver_s']
            chk.queries += o['queries']
            chk.count('accepted_paths', o['accepted'])
            chk.count('rejected_paths', o['rejected'])
            what = 'AddTerm(%r) after lead %r and terms %r with symbolic coefficients' % (o['cfg'][2], o['cfg'][0], o['cfg'][1])
            if not o['exhaustive'] or o['unknown'] or o['dunknown']:
                chk.ob('unknown', what)
            else:
                chk.ob('sat' if o['viol'] else 'unsat', what, distinct=('add',) + tuple(map(str, o['cfg'])))
            if o['viol']:
                lead, pre, t = o['cfg']
                chk.violation(classify_add(o['cfg'], o['viol']), '%s: %s (before %r, after %r)' % (what, o['viol']['why'], o['viol']['before'], o['viol']['after']),
                              REPLAY_ADD % dict(lead=lead, pre=list(pre), t=t, cs=o['viol']['c']))
            elif len(chk.samples) < 8 and o['accepted'] > 20:
                chk.sample({'harness': 'E2 Equation.AddTerm', 'lead': o['cfg'][0], 'merged_terms': o['cfg'][1], 'added': o['cfg'][2], 'paths': o['paths'],
                            'post': 'value(RHS after) == value(RHS before) + value(term) for all coefficients and valuations', 'verdict': 'unsat on every path'})
    hs = obj_histories(tier)
    chk.bounds['Term-object histories'] = ('%d histories: up to %d additions into two equations (after lead in %r) of two caller-held Term objects (spellings %r, SYMBOLIC '
                                           'coefficients, reuse allowed) or strings %r; and the constructor form with 3 right-hand-side items'
                                           % (len(hs), 3 if tier == 'quick' else 4, OBJ_LEADS, OBJ_PAIRS, STR_ARGS))
    for st, lst in pmap(hist_chunk, [hs[i::n] for i in range(n)]):
        if st != 'ok':
            chk.harness_errors.append(lst[:800])
            continue
        for o in lst:
            chk.count('paths', o['paths']); chk.count('forks', o['forks'])
            chk.solver_s += o['solver_s']; chk.queries += o['queries']
            pair, lead, hist, mode = o['cfg']
            what = 'history %s %r of Term objects %r after lead %r: both equations keep lead + signed sum, caller objects unchanged' % (mode, hist, pair, lead)
            if not o['exhaustive'] or o['unknown'] or o['dunknown']:
                chk.ob('unknown', what)
            else:
                chk.ob('sat' if o['viol'] else 'unsat', what, distinct=('hist', str(o['cfg'])))
            if o['viol']:
                chk.violation('Term-object-history:%s' % o['viol']['why'][:60], '%s: %s' % (what, o['viol']['why']),
                              REPLAY_HIST % dict(pair=pair, lead=lead, hist=hist, mode=mode, cs=o['viol']['c'], strs=STR_ARGS))
    chk.sample({'harness': 'E2 Term-object histories', 'histories': len(hs), 'post': 'value(RHS_e) == lead + sum of c_i * term_i added to e, for both equations, '
                'and the caller-held Term objects keep their coefficients; for all real c0, c1 and valuations'})
    shs = sector_histories(tier)
    chk.bounds['Sector equation histories'] = ('%d histories of <= %d calls of Sector.AddTermToEquation (terms %r) and Sector.SetEquationRightHandSide (%r) on one variable: '
                                               'the rendering equals the last restated right-hand side plus the terms added after it' % (len(shs), 3 if tier == 'quick' else 4, SEC_TERMS, SEC_LEADS))
    for st, r in pmap(sector_hist_chunk, [shs[i::16] for i in range(16)]):
        if st != 'ok':
            chk.harness_errors.append(r[:800])
            continue
        chk.solver_s += r['solver_s']; chk.queries += r['queries']
        chk.obligations += r['n']
        chk.discharged += r['n'] - len(r['bad'])
        for h, why in r['bad']:
            if why == 'unknown':
                chk.inconclusive += 1
                continue
            chk.violation('sector-history:%s' % ('restated-then-same-term' if any(o == 'R' for o, _ in h) else str(h))[:80], 'history %r: %s' % (h, why), REPLAY_SECTOR % dict(h=h))
    chk.distinct |= {('sec', i) for i in range(len(shs))}
    ccs = ctor_cases(tier)
    chk.bounds['string constructor'] = '%d cases: Equation(lhs, rhs=text) for the texts %r, then <= 2 of the terms %r added: the rendering equals the text plus the terms' % (len(ccs), CTOR_LEADS, CTOR_TERMS)
    for st, r in pmap(ctor_chunk, [ccs[i::8] for i in range(8)]):
        if st != 'ok':
            chk.harness_errors.append(r[:800])
            continue
        chk.solver_s += r['solver_s']; chk.queries += r['queries']
        chk.obligations += r['n'] + len([b for b in r['bad'] if b[2].startswith('raises')])
        chk.discharged += r['n'] - len([b for b in r['bad'] if not b[2].startswith('raises')])
        for lead, ts, why in r['bad']:
            if why == 'unknown':
                chk.inconclusive += 1
                continue
            chk.violation('string-constructor:%s' % lead, 'Equation(%r) then %r: %s' % (lead, ts, why), REPLAY_CTOR % dict(case=(lead, ts)))
    chk.distinct |= {('ctor', i) for i in range(len(ccs))}
    chs = cash_histories(tier)
    chk.bounds['Sector cash-flow histories'] = ('%d histories of <= 3 calls of Sector.AddCashFlow (income / not income) over the spellings %r: F renders LAG_F plus the signed sum, INC '
                                                'the signed sum of the income flows' % (len(chs), CASH_TERMS))
    for st, r in pmap(cash_hist_chunk, [chs[i::16] for i in range(16)]):
        if st != 'ok':
            chk.harness_errors.append(r[:800])
            continue
        chk.solver_s += r['solver_s']; chk.queries += r['queries']
        chk.obligations += r['n']
        chk.discharged += r['n'] - len(r['bad'])
        for h, why in r['bad']:
            if why == 'unknown':
                chk.inconclusive += 1
                continue
            chk.violation('cash-history:%s' % (str([t for t, _ in h]))[:80], 'cash-flow history %r: %s' % (h, why), REPLAY_CASH % dict(h=h))
    chk.distinct |= {('cash', i) for i in range(len(chs))}
    lists = term_lists(tier)
    for st, r in pmap(cet_chunk, [lists[i::32] for i in range(32)]):
        if st != 'ok':
            chk.harness_errors.append(r[:800])
            continue
        chk.solver_s += r['solver_s']
        chk.queries += r['queries']
        chk.obligations += r['n']
        chk.discharged += r['n'] - len({tuple(b[0]) for b in r['bad']})
        for tl, why in r['bad']:
            if why == 'unknown':
                chk.inconclusive += 1
                continue
            chk.violation(classify_cet(tl, why), 'create_equation_from_terms(%r): %s' % (tl, why), REPLAY_CET % dict(tl=tl))
    chk.distinct |= {('cet', i) for i in range(len(lists))}
    chk.sample({'harness': 'E1 create_equation_from_terms', 'lists': len(lists), 'post': 'value(result) == sum of value(term_i) for all valuations; argument list unchanged'})
    chk.extra['traces_validated'] = diff
    chk.exhaustive = True
    return chk.finish()
