"""C04 markets clear; supply fully allocated; portfolios add up: E1 entailment over the topology zoo."""
import z3

from vf import zoo as Z
from vf.common import Check
from vf.zoolib import Setup, absorb, full_model, EXACT_REPLAY_HEAD
from vf.par import pmap
import sfc_models.sector
import sfc_models.sector_definitions as sd
from sfc_models.sector import Market, FinancialAssetMarket


def demand_name(market, s):
    """The documented naming rule, computed independently of Market._GenerateTermsLowLevel."""
    if isinstance(market, FinancialAssetMarket) or s.Parent is market.Parent:
        return 'DEM_' + market.Code
    return 'DEM_%s_%s' % (market.Parent.Code, market.Code)


def supply_name(market, s):
    if s.Parent is market.Parent:
        return 'SUP_' + market.Code
    return 'SUP_%s_%s' % (market.Parent.Code, market.Code)


def ck_eq(lhs_name, terms, what='=='):
    """replay snippet: b[lhs] == sum of b[t] for t in terms"""
    return 'want = sum(b[t] for t in %r); bad = b[%r] != want; print(%r, float(b[%r]), "expected", float(want))' % (terms, lhs_name, lhs_name, lhs_name)


def work(item):
    plan, order, tag = item
    su = Setup(plan, order=order, order_tag=tag)
    rec = su.base_rec()
    if not su.ok or su.untranslatable:
        return rec
    ctx, S, model = su.ctx, su.S, su.ctx.model
    r0, _ = su.D.decide(su.cons + su.pos, ladder=False)
    if r0 != 'sat':
        r0, _ = su.D.decide(su.cons + su.pos, ladder=True, timeout_ms=120000)      # satisfiability witness from the nlsat rung, with more time
    rec['reach'] = r0
    V = lambda n: S.var(n, 'b')
    ext = model.ExternalSector
    xr = ext['XR'] if ext is not None else None

    def add(kind, what, goal, check):
        v, m = su.entail(goal)
        ob = {'kind': kind, 'what': what, 'verdict': v}
        if v == 'sat':
            ob['cex'] = full_model(m, S)
            ob['check'] = check
        rec['obs'].append(ob)

    for M in model.GetSectors():
        if not isinstance(M, Market):
            continue
        zone = M.CurrencyZone.GetSectors()
        fin = isinstance(M, FinancialAssetMarket)
        issuer = None
        if fin:
            issuer = [s for s in zone if s.Code == M.IssuerShortCode and not isinstance(s, Market)]
            issuer = issuer[0] if issuer else None
        # (i) total demand = sum of the demands of every sector of the zone that declares one
        demanders = []
        for s in zone:
            if s is M or s is issuer:
                continue
            if fin and isinstance(s, Market):
                continue
            if demand_name(M, s) in s.EquationBlock:
                demanders.append(s)
        dn = M.GetVariableName('DEM_' + M.Code)
        dterms = [s.GetVariableName(demand_name(M, s)) for s in demanders]
        tot = z3.RealVal(0)
        for t in dterms:
            tot = tot + V(t)
        add('demand-aggregation', '%s = sum of %d demanders %s' % (dn, len(dterms), dterms), V(dn) == tot, ck_eq(dn, dterms))
        # (ii) supply = demand
        sn = M.GetVariableName('SUP_' + M.Code)
        add('market-clears', '%s = %s' % (sn, dn), V(sn) == V(dn), ck_eq(sn, [dn]))
        if fin:
            if issuer is not None:
                if 'SUP_' + M.Code not in issuer.EquationBlock:
                    # the issuer's own supply variable was never created: a structural violation (no valuation needed)
                    missing = '%s__SUP_%s' % (issuer.FullCode, M.Code)
                    rec['obs'].append({'kind': 'issuer-supplies-demand', 'what': 'issuer %s of market %s has its own supply variable' % (issuer.FullCode, M.FullCode),
                                       'verdict': 'sat', 'cex': {}, 'structural': True, 'check': 'bad = %r not in em.defined(); print(%r, "missing from the emitted system" if bad else "present")' % (missing, missing)})
                    continue
                isup = issuer.GetVariableName('SUP_' + M.Code)
                add('issuer-supplies-demand', '%s = %s' % (isup, dn), V(isup) == V(dn), ck_eq(isup, [dn]))
            continue
        # (iii) allocations add up to supply
        suppliers = []
        if M.ResidualSupply is not None:
            suppliers.append(M.ResidualSupply)
        for s, _ in M.OtherSuppliers:
            if s not in suppliers:
                suppliers.append(s)
        alloc = [M.GetVariableName('SUP_' + s.FullCode) for s in suppliers]
        tot = z3.RealVal(0)
        for t in alloc:
            tot = tot + V(t)
        add('allocation-sums-to-supply', 'sum %s = %s' % (alloc, sn), tot == V(sn), ck_eq(sn, alloc))
        # (iv) each participant's own variable and booked cash flow equal the assigned amount
        for s in demanders:
            if not s.HasF:
                continue
            own = s.GetVariableName(demand_name(M, s))
            frhs = S.rhs(s.GetVariableName('F'), 'b')
            c = z3.simplify(z3.substitute(frhs, (V(own), V(own) + 1)) - frhs)
            add('demand-outflow', 'dF_%s/d%s = -1' % (s.FullCode, own), c == -1,
                'from vf.replaylib import eval_exact\nrhs = dict(em.parser.Endogenous)[%r]\ne1 = dict(b); e1[%r] = b[%r] + 1\n'
                'c = eval_exact(rhs, e1) - eval_exact(rhs, b)\nbad = c != -1; print("coefficient", float(c))' % (s.GetVariableName('F'), own, own))
        for s in suppliers:
            own = s.GetVariableName(supply_name(M, s))
            assigned = M.GetVariableName('SUP_' + s.FullCode)
            if s.CurrencyZone is M.CurrencyZone:
                rate, rate_txt, rate_py = z3.RealVal(1), '1', 'F(1)'
            else:
                a, b_ = xr.GetVariableName(M.CurrencyZone.Currency), xr.GetVariableName(s.CurrencyZone.Currency)
                rate, rate_txt, rate_py = V(a) / V(b_), 'XR_buyer/XR_seller', 'b[%r]/b[%r]' % (a, b_)
            add('supplier-amount', '%s = %s * %s' % (own, assigned, rate_txt), V(own) == V(assigned) * rate,
                'want = b[%r]*%s; bad = b[%r] != want; print(%r, float(b[%r]), "expected", float(want))' % (assigned, rate_py, own, own, own))
            if s.HasF:
                frhs = S.rhs(s.GetVariableName('F'), 'b')
                frhs = z3.substitute(frhs, (V(own), S.rhs(own, 'b')))
                c = z3.simplify(z3.substitute(frhs, (V(assigned), V(assigned) + 1)) - frhs)
                add('supply-inflow', 'ledger of %s: d(inflow)/d%s = %s' % (s.FullCode, assigned, rate_txt), c == rate,
                    'from vf.replaylib import eval_exact\nE = dict(em.parser.Endogenous)\n'
                    'def Fv(env):\n    e = dict(env); e[%r] = eval_exact(E[%r], env); return eval_exact(E[%r], e)\n'
                    'e1 = dict(b); e1[%r] = b[%r] + 1\nc = Fv(e1) - Fv(b)\nwant = %s\nbad = c != want; print("coefficient", float(c), "expected", float(want))'
                    % (own, own, s.GetVariableName('F'), assigned, assigned, rate_py))
    # (v) portfolio demands add up to financial assets
    for s in model.GetSectors():
        if not s.HasF:
            continue
        wgts = [v for v in s.EquationBlock.GetEquationList() if v.startswith('WGT_')]
        if wgts:
            dems = [s.GetVariableName('DEM_' + w[4:]) for w in wgts]
            tot = z3.RealVal(0)
            for t in dems:
                tot = tot + V(t)
            f = s.GetVariableName('F')
            add('portfolio-adds-up', 'sum %s = %s' % (dems, f), tot == V(f), ck_eq(f, dems))
        elif 'DEM_MON' in s.EquationBlock and not isinstance(s, sd.Treasury):
            f, d = s.GetVariableName('F'), s.GetVariableName('DEM_MON')
            add('default-money-demand', '%s = %s' % (d, f), V(d) == V(f), ck_eq(d, [f]))
    return su.finish(rec)


def run(tier, seed):
    chk = Check('C04', tier, 'translation_validation', seed)
    chk.encode(sfc_models.sector.Market._GenerateEquations, sfc_models.sector.Market._GenerateTermsLowLevel,
               sfc_models.sector.Market._GenerateMultiSupply, sfc_models.sector.Market._SearchSupplier,
               sfc_models.sector.Market.GetSupplierTerm, sfc_models.sector.Sector.GenerateAssetWeighting,
               sd.MoneyMarket._GenerateEquations, sd.DepositMarket._GenerateEquations, sfc_models.sector.Sector.AddCashFlow)
    from vf import zoolib
    zoolib.XCHECK_EVERY[0] = 25 if tier == 'quick' else 5
    plans = Z.zoo(tier) + [p for p in Z.ambiguous() if 'market' in p.name]      # an ambiguous market wiring: refused, or - if a tree builds it - analysed like the others
    chk.bounds = {'topologies': len(plans), 'periods': 'any one period k>=1 (period b with model-consistent predecessor)',
                  'numeric domain': 'all reals (exogenous, lagged state, declared parameters); exchange rates > 0',
                  'declaration order': 'canonical (order is the subject of C08)'}
    chk.assumptions = ['exchange-rate variables > 0', 'demander set computed by the harness from the public object API and the documented naming rule',
                       'Treasury.DEM_MON is the constructor-declared zero money demand, not the default DEM_MON = F']
    chk.outside = ['markets of hand-written subclasses', 'topologies outside the zoo grammar']

    def on_ob(rec, ob):
        chk.ob(ob['verdict'], '%s %s' % (rec['plan'], ob['what']), distinct=(rec['plan'], rec['order_tag'], ob['what']))
        chk.sample({'topology': rec['plan'], 'obligation': ob['kind'], 'what': ob['what'][:300], 'verdict': ob['verdict']}, cap=16)
        chk.count('kind:' + ob['kind'])
        if ob['verdict'] == 'sat':
            key = '%s:%s:%s' % (rec['plan'], rec['order_tag'], ob['what'][:200])
            if ob.get('structural'):
                src = ('import sys\nfrom vf.replaylib import get_plan\nfrom vf import zoo as Z\nfrom vf.emit import emit\nplan = get_plan(%r)\n'
                       'em = emit(Z.build(plan, order=%r))\n' % (rec['plan'], rec['order'])) + ob['check'] + '\nsys.exit(1 if bad else 0)\n'
            else:
                src = EXACT_REPLAY_HEAD % dict(plan=rec['plan'], cex=ob['cex'], order=rec['order']) + ob['check'] + '\nsys.exit(1 if bad else 0)\n'
            chk.violation(key, 'topology %s (declaration order: %s): %s fails' % (rec['plan'], rec['order_tag'], ob['what']), src)
    from vf.zoolib import plan_orders
    absorb(chk, pmap(work, plan_orders(plans, tier)), on_ob)
    chk.exhaustive = True
    return chk.finish()
