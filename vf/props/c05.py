"""C05 generated system is closed, canonical, placeholder-free; each emitted equation means what its sector-local form means.
E1 equivalence (solver) + syntactic closure read off the emitted text."""
import re

import z3

from vf import zoo as Z
from vf.common import Check
from vf.emit import emit
from vf.eqsmt import to_z3, names_of, Untranslatable, Decider, val_fraction
from vf.par import pmap
import sfc_models.models
import sfc_models.sector
import sfc_models.equation
import sfc_models.utils
from sfc_models.sector import Sector, Market
import sfc_models.sector_definitions as sd

PERMITTED = {'k', 'float', 'max', 'min', 'sum', 'pow', 'abs', 'round'}
PLACEHOLDER = re.compile(r'(?<![A-Za-z0-9])_[0-9]+__[A-Za-z_0-9]+')


def canonical(model, sector, local):
    """Harness-side spelling of the canonical name (independent of Sector.GetVariableName)."""
    code = sector.Code
    if len(model.CountryList) > 1:
        code = sector.Parent.Code + '_' + code
    return code + '__' + local


def closure_obs(em):
    """Syntactic closure of the final text: unique canonical LHS, RHS names defined, no placeholder anywhere."""
    obs = []
    model = em.model
    text = em.text
    lhs = []
    for line in text.split('\n'):
        code = line.split('#')[0]
        if '=' in code:
            lhs.append(code.split('=')[0].strip())
    dup = sorted({x for x in lhs if lhs.count(x) > 1})
    obs.append(('unique-lhs', 'every left-hand side appears once', not dup, {'duplicates': dup[:6]}))
    want = set()
    for s in model.GetSectors():
        for v in s.EquationBlock.GetEquationList():
            want.add(canonical(model, s, v))
    got = {x.replace('(0)', '') for x in lhs} - {'MaxTime', 'Err_Tolerance'} - {g[0] for g in model.GlobalVariables}
    obs.append(('canonical-lhs', 'left-hand sides are exactly the canonical names of the sector variables',
                got == want, {'unexpected': sorted(got - want)[:6], 'missing': sorted(want - got)[:6]}))
    p = em.parser
    defined = em.defined() | {'t'}
    dangling = []
    for v, e in list(p.Endogenous) + list(p.Decoration):
        try:
            for n in names_of(e):
                if n not in defined and n not in PERMITTED:
                    dangling.append((v, n))
        except Untranslatable:
            dangling.append((v, '<unparsable> ' + e[:40]))
    for v, src in p.Lagged:
        if src.strip() not in defined:
            dangling.append((v, src.strip()))
    obs.append(('closed', 'every right-hand-side name is a defined variable, k or a permitted function', not dangling, {'dangling': dangling[:6]}))
    ph = PLACEHOLDER.findall('\n'.join(l.split('#')[0] for l in text.split('\n')))
    obs.append(('no-placeholder', 'no placeholder _<id>__name survives in the equations', not ph, {'placeholders': ph[:6]}))
    return obs


def local_form_obs(em, D):
    """final rhs == sector-local rhs with local names bound to their canonical variables (solver, all valuations)."""
    out = []
    model = em.model
    final = dict(list(em.parser.Endogenous) + list(em.parser.Decoration))
    lagged = {v: s.strip() for v, s in em.parser.Lagged}
    VV = {}

    def var(n):
        if n not in VV:
            VV[n] = z3.Real(n)
        return VV[n]
    n_eq = 0
    bad = []
    for s in model.GetSectors():
        block = s.EquationBlock
        locs = set(block.GetEquationList())
        for v in locs:
            rhs = block[v].RHS()
            cname = canonical(model, s, v)
            if re.match(r'^\s*EXOGENOUS(?![A-Za-z0-9_])', rhs):
                continue        # an exogenous definition (the Model's marker in front of the stated path)
            m = re.match(r'^\s*([A-Za-z_][A-Za-z_0-9]*)\s*\(\s*k\s*-\s*1\s*\)\s*$', rhs)
            if m:
                src = m.group(1)
                want = canonical(model, s, src) if src in locs else src
                if lagged.get(cname) != want:
                    bad.append((cname, 'lag source %r, expected %r' % (lagged.get(cname), want), None))
                n_eq += 1
                continue
            if cname not in final:
                bad.append((cname, 'not emitted', None))
                continue
            try:
                intended = to_z3(rhs, lambda n, s=s, locs=locs: var(canonical(model, s, n)) if n in locs else var(n))
                emitted = to_z3(final[cname], var)
            except Untranslatable as e:
                out.append(('local-form', cname + ': ' + str(e), 'unknown', None))
                continue
            n_eq += 1
            if z3.eq(z3.simplify(intended - emitted), z3.RealVal(0)):
                continue
            r, mdl = D.decide([intended != emitted], ladder=False, timeout_ms=20000)
            if r == 'sat':
                cex = {n: str(val_fraction(mdl.eval(zv, model_completion=True))) for n, zv in VV.items()}
                bad.append((cname, 'emitted %r differs from local form %r' % (final[cname], rhs), cex))
            elif r != 'unsat':
                out.append(('local-form', cname, 'unknown', None))
    # model-level equations (Model.AddGlobalEquation) are emitted under their own names with their own meaning
    for gvar, geqn, _gdesc in model.GlobalVariables:
        if gvar not in final:
            bad.append((gvar, 'model-level equation not emitted among the equations', None))
            continue
        try:
            if not z3.eq(z3.simplify(to_z3(geqn, var) - to_z3(final[gvar], var)), z3.RealVal(0)):
                bad.append((gvar, 'emitted %r differs from the model-level equation %r' % (final[gvar], geqn), None))
        except Untranslatable as e:
            out.append(('local-form', gvar + ': ' + str(e), 'unknown', None))
        n_eq += 1
    out.append(('local-form', '%d emitted equations equal their sector-local form under canonical qualification' % n_eq,
                'sat' if bad else 'unsat', {'differences': [(a, b) for a, b, _ in bad[:5]]}))
    return out


def _other_model_half_built():
    from sfc_models.models import Model, Country
    from sfc_models.sector import Sector
    m2 = Model(); c2 = Country(m2, 'ZZ', currency='ZED'); Sector(c2, 'S1'); Sector(c2, 'S2')


def work_zoo(item):
    plan, disturbed = item if isinstance(item, tuple) else (item, False)
    rec = {'plan': plan.name + (':another-model-started-half-way' if disturbed else ''), 'case': 'zoo', 'obs': [], 'solver_s': 0.0, 'queries': 0}
    # disturbed: another model is started and half built after half of this topology's declarations (coexisting models are documented)
    ctx = Z.build(plan, interrupt=(max(1, len(plan.decls) // 2), _other_model_half_built)) if disturbed else Z.build(plan)
    em = emit(ctx)
    if not em.text:
        rec['build_error'] = repr(em.err)
        return rec
    for kind, what, ok, detail in closure_obs(em):
        rec['obs'].append({'kind': kind, 'what': what, 'verdict': 'unsat' if ok else 'sat', 'detail': None if ok else detail})
    D = Decider()
    for kind, what, verdict, detail in local_form_obs(em, D):
        rec['obs'].append({'kind': kind, 'what': what, 'verdict': verdict, 'detail': detail if verdict == 'sat' else None})
    rec['solver_s'], rec['queries'] = D.solver_s, D.queries
    return rec


# ---- embedding sites ------------------------------------------------------------------------------------------------------

SITES = ['AddVariable', 'SetEquationRightHandSide', 'AddCashFlow-eqn', 'AddTermToEquation', 'AddSupplier-eqn', 'GenerateAssetWeighting',
         'AddGlobalEquation', 'AddVariable-self', 'AddTermToEquation-after-blob', 'AddTermToEquation-product', 'AddCashFlow-product-term', 'Equation-parsed-product',
         # ONE name requested twice - before full codes exist (placeholder) and after (canonical) - and both spellings embedded as terms of one equation:
         # they mean one variable, so the equation counts it twice (or, with opposite signs, not at all)
         'AddTermToEquation-both-stages', 'AddTermToEquation-both-stages-cancel', 'AddCashFlow-both-stages']
BOTH_STAGES = ('AddTermToEquation-both-stages', 'AddTermToEquation-both-stages-cancel', 'AddCashFlow-both-stages')
TEMPLATES = ['{N}', '2*{N} + 1', '({N} - 3)*{N}', '{N}/4 + LOCALX', 'max(5.0, {N})', 'max(LOCALX,{N}) - min(2.0 , {N})', 'float(LOCALX < {N})', '({N}\n      + 2*LOCALX)']


def site_cases(tier):
    cases = []
    for site in SITES:
        for when in ('before', 'after'):
            for ncountry in (1, 2):
                for ti, t in enumerate(TEMPLATES):
                    if tier == 'quick' and ti in (2,) and ncountry == 1:
                        continue
                    if site in ('AddTermToEquation', 'AddTermToEquation-after-blob', 'AddTermToEquation-product', 'AddCashFlow-product-term', 'Equation-parsed-product') + BOTH_STAGES and ti != 0:
                        continue
                    cases.append((site, when, ncountry, t))
    # the same sites through the step-wise runner (aliases are resolved once before the sectors generate their equations and once after)
    for site in SITES:
        for ncountry in (1, 2):
            cases.append((site, 'before', ncountry, TEMPLATES[0], 'steps'))
    return cases


def build_site(case):
    """SIM-like model; a name of HH (variable F, or AfterTax) is requested before/after full codes exist and embedded."""
    site, when, ncountry, template = case
    plan = Z.Plan('site')
    Z.economy(plan, 'CA', None, gov='tre_cb' if site == 'GenerateAssetWeighting' else 'cons',
              firm='multi' if site == 'AddSupplier-eqn' else 'fm0', free_xr=False)
    if ncountry == 2:
        Z.economy(plan, 'US', None, free_xr=False)
    ctx = Z.build(plan)
    model = ctx.model
    hh, gov, bus = ctx['CA.HH'], ctx[plan.meta['CA.gov']], ctx['CA.BUS']
    if when == 'after':
        model._GenerateFullSectorCodes()
    target_sector, target_local = hh, 'AfterTax'
    host = gov
    if site == 'AddVariable-self':
        host = hh
    host.AddVariable('LOCALX', 'a local helper', '7.0')
    N = target_sector.GetVariableName(target_local)
    expr = template.format(N=N)
    info = {'requested_name': N}
    if site in ('AddVariable', 'AddVariable-self'):
        host.AddVariable('PROBE', 'probe', expr)
        owner, local = host, 'PROBE'
    elif site == 'SetEquationRightHandSide':
        host.AddVariable('PROBE', 'probe', '0.0')
        host.SetEquationRightHandSide('PROBE', expr)
        owner, local = host, 'PROBE'
    elif site == 'AddCashFlow-eqn':
        host.AddCashFlow('+PROBE', eqn=expr, desc='probe flow', is_income=False)
        owner, local = host, 'PROBE'
    elif site == 'AddTermToEquation':
        host.AddVariable('PROBE', 'probe', 'LOCALX')
        host.EquationBlock['PROBE'].TermList = []
        host.AddTermToEquation('PROBE', 'LOCALX')
        host.AddTermToEquation('PROBE', N)
        expr = 'LOCALX + ' + N
        owner, local = host, 'PROBE'
    elif site == 'AddTermToEquation-after-blob':
        # an opaque right-hand side (as AddVariable stores it) followed by appended terms
        host.AddVariable('PROBE', 'probe', 'LOCALX*2')
        host.AddTermToEquation('PROBE', N)
        host.AddTermToEquation('PROBE', '-LOCALX')
        expr = 'LOCALX*2 + ' + N + ' - LOCALX'
        owner, local = host, 'PROBE'
    elif site in ('AddTermToEquation-product', 'AddCashFlow-product-term', 'Equation-parsed-product'):
        # two requested names combined in a product/quotient that the framework stores as a (non-opaque) Term
        M = bus.GetVariableName('F')
        info['second'] = (bus, 'F', M)
        if site == 'AddTermToEquation-product':
            host.AddVariable('PROBE', 'probe', 'LOCALX')
            host.EquationBlock['PROBE'].TermList = []
            host.AddTermToEquation('PROBE', 'LOCALX')
            host.AddTermToEquation('PROBE', N + '*' + M)
            host.AddTermToEquation('PROBE', '-' + M + '/' + N)
            expr = 'LOCALX + ' + N + '*__M__ - __M__/' + N
            owner, local = host, 'PROBE'
        elif site == 'AddCashFlow-product-term':
            # a plain sector nobody else books flows on, so that its ledger is exactly LAG_F + the product term
            from sfc_models.sector import Sector as _Sector
            if when == 'after':
                host = _Sector(ctx['CA'], 'PRB')
                model._GenerateFullSectorCodes()
            else:
                host = _Sector(ctx['CA'], 'PRB')
            host.AddCashFlow('+' + N + '*' + M, is_income=False)
            expr = None
            owner, local = host, 'F'
            info['ledger'] = N + '*__M__'
        else:
            from sfc_models.equation import Equation
            host.AddVariableFromEquation(Equation('PROBE', 'probe', N + '/' + M))
            expr = N + '/__M__'
            owner, local = host, 'PROBE'
        return ctx, owner, local, expr, N, target_sector, target_local, host, info
    elif site in BOTH_STAGES:
        N1 = N
        if site == 'AddCashFlow-both-stages':
            from sfc_models.sector import Sector as _Sector
            host = _Sector(ctx['CA'], 'PRB')
            if when == 'after':
                model._GenerateFullSectorCodes()
                N1 = target_sector.GetVariableName(target_local)
            host.AddCashFlow('+' + N1, is_income=False)
            model._GenerateFullSectorCodes()
            N2 = target_sector.GetVariableName(target_local)
            host.AddCashFlow('+' + N2, is_income=False)
            info['ledger'] = '2*__REF__'
            info['names'] = (N1, N2)
            return ctx, host, 'F', None, N, target_sector, target_local, host, info
        host.AddVariable('PROBE', 'probe', 'LOCALX')
        host.EquationBlock['PROBE'].TermList = []
        host.AddTermToEquation('PROBE', 'LOCALX')
        host.AddTermToEquation('PROBE', N1)
        model._GenerateFullSectorCodes()          # what Model.LogInfo() does: full codes come to exist part-way through the construction
        N2 = target_sector.GetVariableName(target_local)
        info['names'] = (N1, N2)
        if site.endswith('cancel'):
            host.AddTermToEquation('PROBE', '-' + N2)
            expr = 'LOCALX + 0*__REF__'
        else:
            host.AddTermToEquation('PROBE', N2)
            expr = 'LOCALX + 2*__REF__'
        owner, local = host, 'PROBE'
    elif site == 'AddSupplier-eqn':
        # second supplier of the goods market with an allocation rule that embeds the requested name
        other = sd.FixedMarginBusinessMultiOutput(ctx['CA'], 'BUS2', market_list=[ctx['CA.GOOD']])
        mk = ctx['CA.GOOD']
        mk.AddVariable('LOCALX', 'a local helper', '7.0')
        mk.AddSupplier(other, expr)
        owner, local = mk, 'SUP_' + (('CA_' if ncountry == 2 else '') + 'BUS2')
    elif site == 'GenerateAssetWeighting':
        # replaces the portfolio rule of the household by one embedding the requested name
        hh.AddVariable('LOCALX', 'a local helper', '7.0') if 'LOCALX' not in hh.EquationBlock else None
        hh.GenerateAssetWeighting({'DEP': expr}, 'MON')
        owner, local = hh, 'WGT_DEP'
    elif site == 'AddGlobalEquation':
        model.AddGlobalEquation('PROBE', 'probe', expr.replace('LOCALX', host.GetVariableName('LOCALX')))
        expr = expr.replace('LOCALX', '{HOSTX}')
        owner, local = None, 'PROBE'
    else:
        raise ValueError(site)
    return ctx, owner, local, expr, N, target_sector, target_local, host, info


def work_site(case):
    site, when, ncountry, template = case[:4]
    runner = case[4] if len(case) > 4 else 'main'
    rec = {'plan': 'site:%s:%s:%dcountry:%s' % case[:4] + (':step-wise-runner' if runner == 'steps' else ''), 'case': 'site', 'obs': [], 'solver_s': 0.0, 'queries': 0}
    try:
        ctx, owner, local, expr, N, tsec, tloc, host, info = build_site(case[:4])
    except Exception as e:
        rec['build_error'] = 'site construction failed: %r' % (e,)
        return rec
    em = emit(ctx, runner=runner)
    if not em.text:
        rec['obs'].append({'kind': 'builds', 'what': 'main() raises %r' % (em.err,), 'verdict': 'sat', 'detail': {'error': repr(em.err)}})
        return rec
    model = ctx.model
    for kind, what, ok, detail in closure_obs(em):
        rec['obs'].append({'kind': kind, 'what': what, 'verdict': 'unsat' if ok else 'sat', 'detail': None if ok else detail})
    final = dict(list(em.parser.Endogenous) + list(em.parser.Decoration))
    cname = canonical(model, owner, local) if owner is not None else local
    referent = canonical(model, tsec, tloc)
    VV = {}

    def var(n):
        if n not in VV:
            VV[n] = z3.Real(n)
        return VV[n]
    if cname not in final:
        rec['obs'].append({'kind': 'site-equation', 'what': 'probe equation %s emitted' % cname, 'verdict': 'sat', 'detail': {'missing': cname}})
        return rec
    hostx = canonical(model, host, 'LOCALX')
    if owner is not None and 'LOCALX' in owner.EquationBlock:
        hostx = canonical(model, owner, 'LOCALX')
    second = None
    if 'second' in info:
        second = canonical(model, info['second'][0], info['second'][1])
    if expr is None:
        # ledger site: F of the host must be its lagged value plus the product term
        expr = 'LAG_F__ + ' + info['ledger']
    intended_txt = expr.replace(N, '__REF__').replace('{HOSTX}', '__HOSTX__').replace('LOCALX', '__HOSTX__')
    if 'second' in info:
        intended_txt = intended_txt.replace(info['second'][2], '__M__')
    lagf = canonical(model, host, 'LAG_F')
    D = Decider()
    try:
        intended = to_z3(intended_txt, lambda n: var(referent) if n == '__REF__' else (var(hostx) if n == '__HOSTX__' else (var(second) if n == '__M__' else (var(lagf) if n == 'LAG_F__' else var(n)))), opaque=True)
        emitted = to_z3(final[cname], var, opaque=True)
        r, mdl = D.decide([intended != emitted], ladder=False, timeout_ms=20000)
    except Untranslatable as e:
        r, mdl = 'sat', None
        rec['obs'].append({'kind': 'site-equation', 'what': 'emitted probe equation parses: %s' % e, 'verdict': 'sat',
                           'detail': {'emitted': final[cname]}})
    ob = {'kind': 'site-equation', 'what': 'probe %s == intended %s with the referent bound to %s' % (cname, intended_txt, referent),
          'verdict': r, 'detail': {'emitted': final[cname], 'intended': intended_txt.replace('__REF__', referent).replace('__HOSTX__', hostx)} if r == 'sat' else None}
    rec['obs'].append(ob)
    rec['solver_s'], rec['queries'] = D.solver_s, D.queries
    return rec


REPLAY = '''
import sys
from vf.props import c05
kind, arg = %(kind)r, %(arg)r
if kind == 'zoo':
    from vf.replaylib import get_plan
    rec = c05.work_zoo((get_plan(arg[0]), arg[1]) if isinstance(arg, (list, tuple)) else get_plan(arg))
else:
    rec = c05.work_site(tuple(arg))
bad = [ob for ob in rec['obs'] if ob['verdict'] == 'sat' and ob['kind'] == %(okind)r]
for ob in bad:
    print(ob['what'], ob.get('detail'))
if 'build_error' in rec: print(rec['build_error'])
sys.exit(1 if bad else 0)
'''


def run(tier, seed):
    chk = Check('C05', tier, 'translation_validation', seed)
    chk.encode(Sector.GetVariableName, Sector._CreateFinalEquations, sfc_models.models.Model._FixAliases,
               sfc_models.models.Model._RegisterAlias, sfc_models.models.Model._CreateFinalEquations,
               sfc_models.models.Model._GenerateFullSectorCodes, sfc_models.models.Model.AddGlobalEquation,
               sfc_models.equation.Term.ReplaceTokensFromLookup, sfc_models.utils.replace_token_from_lookup)
    plans = Z.zoo(tier)
    cases = site_cases(tier)
    chk.bounds = {'topologies': len(plans), 'embedding sites': SITES, 'site cases': len(cases),
                  'request time': ['before full codes exist (placeholder)', 'after'], 'countries': [1, 2], 'templates': TEMPLATES,
                  'numeric domain': 'all reals (equivalence of emitted vs intended right-hand side)'}
    chk.assumptions = ['canonical name computed by the harness: sector code, country-prefixed iff the model has more than one country',
                       'exogenous definitions are evaluated without variables by the solver, so a variable name embedded there is ill-formed '
                       'input with or without placeholder: not a site', 'initial conditions take a float: no name can be embedded']
    chk.outside = ['placeholders smuggled through user string manipulation (e.g. substrings of a requested name)']

    def absorb(res, kind, args):
        for (st, rec), arg in zip(res, args):
            if st != 'ok':
                chk.harness_errors.append(rec[:800])
                continue
            chk.count('programs')
            if 'build_error' in rec:
                chk.harness_errors.append('%s: %s' % (rec['plan'], rec['build_error']))
                continue
            chk.solver_s += rec['solver_s']
            chk.queries += rec['queries']
            for ob in rec['obs']:
                chk.ob(ob['verdict'], '%s %s' % (rec['plan'], ob['what']), distinct=(rec['plan'], ob['kind']))
                chk.count('kind:' + ob['kind'])
                if ob['kind'] in ('site-equation', 'local-form'):
                    chk.sample({'structure': rec['plan'], 'obligation': ob['what'][:300], 'verdict': ob['verdict']}, cap=16)
                if ob['verdict'] == 'sat':
                    if kind == 'zoo':
                        key = 'zoo:%s:%s' % (rec['plan'], ob['kind'])
                        rarg = [arg[0].name, arg[1]] if isinstance(arg, tuple) else arg.name
                    else:
                        key = 'site:%s:%s:%s' % (arg[0], arg[1], ob['kind'])
                        rarg = list(arg)
                    chk.violation(key, '%s: %s %s' % (rec['plan'], ob['what'], ob.get('detail')),
                                  REPLAY % dict(kind=kind, arg=rarg, okind=ob['kind']))
    zitems = [(p, False) for p in plans] + [(p, True) for p in plans]
    absorb(pmap(work_zoo, zitems), 'zoo', zitems)
    absorb(pmap(work_site, cases), 'site', cases)
    chk.exhaustive = True
    return chk.finish()
