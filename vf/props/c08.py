"""C08 declaration order does not matter: E1 system equivalence of permuted builds."""
from vf import zoo as Z
from vf.common import Check
from vf.zoolib import compare_systems, param_names
from vf.emit import emit
from vf.par import pmap
import sfc_models.models
import sfc_models.sector
import sfc_models.sector_definitions as sd

MODE = {'quick': 'transpositions', 'thorough': 'all'}
TIER = ['quick']


def order_keys(plan, order):
    return [plan.decls[i].key for i in order]


def work(plan):
    rec = {'plan': plan.name, 'obs': [], 'orders': 0, 'solver_s': 0.0, 'queries': 0}
    orders = plan.orders(MODE[TIER[0]])
    ctx0 = Z.build(plan, order=orders[0])
    em0 = emit(ctx0)
    if not em0.text:
        if 'ambiguous' not in plan.features:
            # a topology of the zoo that the canonical order cannot build: if another order does build it, that is an order dependence
            for order in orders[1:]:
                em = emit(Z.build(plan, order=order))
                if em.text:
                    rec['obs'].append({'kind': 'refused-alike', 'what': 'the canonical order is refused (%s) but a permuted order builds' % type(em0.err).__name__,
                                       'verdict': 'sat', 'order': order, 'order_keys': order_keys(plan, order),
                                       'structural': {'error': 'canonical build gives %r' % (em0.err,)}})
                    return rec
            rec['build_error'] = repr(em0.err)
            return rec
        # an ambiguous topology: refused - then it has to be refused alike in every declaration order (an order that builds has picked one reading)
        for order in orders[1:]:
            rec['orders'] += 1
            em = emit(Z.build(plan, order=order))
            same = (not em.text) and type(em.err) is type(em0.err)
            rec['obs'].append({'kind': 'refused-alike', 'what': 'refused in the canonical order (%s): refused alike in the permuted order' % type(em0.err).__name__,
                               'verdict': 'unsat' if same else 'sat', 'order': order, 'order_keys': order_keys(plan, order),
                               'structural': None if same else {'error': 'permuted build gives %r, canonical %r' % (em.err, em0.err)}})
        return rec
    params = param_names(plan, ctx0, em0)
    rec['params'] = sorted(params)
    for order in orders[1:]:
        rec['orders'] += 1
        ctx = Z.build(plan, order=order)
        em = emit(ctx)
        oname = order_keys(plan, order)
        if not em.text:
            rec['obs'].append({'kind': 'builds', 'what': 'permuted build raises %r' % (em.err,), 'verdict': 'sat', 'order': order,
                               'structural': {'error': repr(em.err)}})
            continue
        obs, D = compare_systems(em0.parser, em.parser, params)
        rec['solver_s'] += D.solver_s
        rec['queries'] += D.queries
        for ob in obs:
            ob['order'] = order
            ob['order_keys'] = oname
            rec['obs'].append(ob)
    rec['n_eq'] = len(em0.parser.Endogenous)
    if 'solve-compare' in plan.features:
        # the SOLUTION as well: the same model really solved for two periods in every order, every series compared (the solver's own passes over the
        # equation list - time-zero constants, decorative variables - run in text order, which is declaration order)
        def solved(order):
            em = emit(Z.build(plan, order=order), maxtime=2)
            if em.err is not None or not em.text:
                return 'error: %r' % (em.err,)
            ts = em.model.EquationSolver.TimeSeries
            return {v: list(ts[v]) for v in ts}
        ref = solved(orders[0])
        for order in orders[1:]:
            got = solved(order)
            bad = None
            if isinstance(ref, str) or isinstance(got, str):
                if type(ref) is not type(got):
                    bad = 'canonical order: %s; permuted order: %s' % (ref if isinstance(ref, str) else 'solved', got if isinstance(got, str) else 'solved')
            elif set(ref) != set(got):
                bad = 'variables differ: %r' % (sorted(set(ref) ^ set(got))[:4],)
            else:
                diff = [(v, k, ref[v][k], got[v][k]) for v in ref for k in range(len(ref[v]))
                        if len(got[v]) != len(ref[v]) or abs(ref[v][k] - got[v][k]) > 1e-5 * (1 + abs(ref[v][k]) + abs(got[v][k]))]
                if diff:
                    bad = 'series differ: %r' % (diff[:3],)
            rec['obs'].append({'kind': 'solution-identical', 'what': 'solved for two periods: every series as in the canonical order', 'verdict': 'sat' if bad else 'unsat',
                               'order': order, 'order_keys': order_keys(plan, order), 'structural': {'error': bad} if bad else None, 'solve': True})
    return rec


REPLAY = '''
import sys
from fractions import Fraction as F
from vf.replaylib import get_plan, eval_exact
from vf import zoo as Z
from vf.emit import emit
plan = get_plan(%(plan)r)
order = %(order)r
canon = emit(Z.build(plan))
perm = emit(Z.build(plan, order=order))
print('permuted declaration order:', [plan.decls[i].key for i in order])
if not canon.text:
    print('canonical build refused with', repr(canon.err), '; permuted build:', repr(perm.err) if not perm.text else 'builds'); sys.exit(0 if (not perm.text and type(perm.err) is type(canon.err)) else 1)
if not perm.text:
    print('permuted build raises', repr(perm.err)); sys.exit(1)
A = dict(list(canon.parser.Endogenous) + list(canon.parser.Decoration)); B = dict(list(perm.parser.Endogenous) + list(perm.parser.Decoration))
if set(A) != set(B):
    print('variable sets differ: only canonical', sorted(set(A) - set(B))[:6], 'only permuted', sorted(set(B) - set(A))[:6]); sys.exit(1)
if dict(canon.parser.Lagged) != dict(perm.parser.Lagged) or canon.parser.InitialConditions != perm.parser.InitialConditions:
    print('lag / initial-condition sets differ'); sys.exit(1)
if %(solve)r:
    def solved(o):
        em = emit(Z.build(plan, order=o), maxtime=2)
        if em.err is not None or not em.text: return 'error: %%r' %% (em.err,)
        ts = em.model.EquationSolver.TimeSeries
        return {v: list(ts[v]) for v in ts}
    a, b = solved(None), solved(order)
    if isinstance(a, str) or isinstance(b, str):
        print('canonical:', a if isinstance(a, str) else 'solved', '| permuted:', b if isinstance(b, str) else 'solved'); sys.exit(1 if type(a) is not type(b) else 0)
    diff = [(v, k, a[v][k], b[v][k]) for v in a for k in range(len(a[v])) if v not in b or len(b[v]) != len(a[v]) or abs(a[v][k] - b[v][k]) > 1e-5 * (1 + abs(a[v][k]) + abs(b[v][k]))]
    print('series that differ (variable, k, canonical, permuted):', diff[:6]); sys.exit(1 if diff else 0)
cex = %(cex)r
if cex is None:
    print('no numeric witness (structural difference expected but not found)'); sys.exit(0)
env = {k: F(v) for k, v in cex.items()}
first, second = (A, B) if %(side)r == 'B' else (B, A)
for v, e in first.items():
    if v in env and eval_exact(e, env) != env[v] and v not in %(params)r:
        print('witness does not satisfy the first system at', v); sys.exit(0)
v = %(var)r
got = eval_exact(second[v], env)
print(v, 'has value', float(env[v]), 'in one system; the other system`s equation gives', float(got), ':', second[v])
sys.exit(1 if got != env[v] else 0)
'''


def run(tier, seed):
    TIER[0] = tier
    chk = Check('C08', tier, 'translation_validation', seed)
    chk.encode(sfc_models.models.Model._GenerateEquations, sfc_models.sector.Market._GenerateTermsLowLevel,
               sfc_models.sector.Market._SearchSupplier, sd.FixedMarginBusiness.__init__, sd.FixedMarginBusiness._GenerateEquations,
               sd.TaxFlow._GenerateEquations, sd.MoneyMarket._GenerateEquations, sd.DepositMarket._GenerateEquations,
               sd.CentralBank._GenerateEquations)
    plans = (Z.zoo('quick') if tier == 'quick' else Z.zoo('quick') + Z.zoo_product()[::7]) + Z.ambiguous()
    chk.bounds = {'topologies': len(plans), 'orders per topology': 'canonical, countries-first, reverse-topological, markets-first, flows-first, '
                  'reversed-markets-first, markets-last and every adjacent transposition (quick); + all permutations for <=7 sectors / rotations '
                  'and strided interleavings beyond (thorough)', 'numeric domain': 'all reals (every variable free)'}
    chk.assumptions = ['a permutation is admissible iff every object exists before it is passed to a constructor (Treasury before CentralBank, '
                       'markets before a multi-output firm); countries (each with its stated currency) and the external sector are permuted among themselves, except in topologies where a Region relies on the documented default currency (= the currency of the country declared last)',
                       'post-declaration calls (AddSupplier, GenerateAssetWeighting, SetExogenous, RegisterCashFlow) stay in canonical order']
    chk.outside = ['orders of post-declaration method calls', 'country orders in topologies with a default-currency Region (order dependent by documented design)']
    res = pmap(work, plans)
    n_orders = 0
    for st, rec in res:
        if st != 'ok':
            chk.harness_errors.append(rec[:600])
            continue
        chk.count('programs')
        if 'build_error' in rec:
            chk.harness_errors.append('canonical build of %s fails: %s' % (rec['plan'], rec['build_error']))
            continue
        n_orders += rec['orders']
        chk.solver_s += rec['solver_s']
        chk.queries += rec['queries']
        plan = [p for p in plans if p.name == rec['plan']][0]
        for ob in rec['obs']:
            chk.ob(ob['verdict'], '%s %s' % (rec['plan'], ob['what']), distinct=(rec['plan'], tuple(ob['order']), ob['kind'], ob.get('var')))
            if ob['kind'] in ('per-equation-identical', 'system-entailment'):
                chk.sample({'topology': rec['plan'], 'order': ob['order_keys'], 'obligation': ob['what'], 'verdict': ob['verdict']})
            if ob['verdict'] == 'sat':
                # identify the finding by the pair of declarations whose relative order changed and matters
                key = finding_key(plan, ob)
                chk.violation(key, 'topology %s, order %s: %s %s' % (rec['plan'], ob['order_keys'], ob['what'], ob.get('structural', '')),
                              REPLAY % dict(plan=rec['plan'], order=ob['order'], cex=ob.get('cex'), side=ob.get('side', 'B'), solve=bool(ob.get('solve')),
                                            var=ob.get('var'), params=rec.get('params', [])))
    chk.counters['permuted_builds'] = n_orders
    chk.exhaustive = True
    return chk.finish()


def finding_key(plan, ob):
    """class of the order dependence: which sector kinds are involved (by the differing variable / structural diff)."""
    st = ob.get('structural')
    if st:
        names = (st.get('only_first', []) + st.get('only_second', []) + st.get('different', [])) if isinstance(st, dict) else []
        tag = sorted({n.split('__')[-1] for n in names})[:3]
        return '%s:%s:%s' % (plan.name, ob['kind'], ','.join(tag) or st.get('error', '')[:60])
    return '%s:%s:%s' % (plan.name, ob['kind'], (ob.get('var') or '').split('__')[-1])
