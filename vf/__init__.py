"""Solver-based checking of brianr747/SFC_models (see /verif/DESIGN.md)."""
