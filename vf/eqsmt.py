"""E1: the repository's equation language -> SMT (z3 reals, cvc5 cross-check).

The objects translated are the artifacts the real code emits (FinalEquations, Equation.RHS(), parser lists,
utility-function outputs). Anything that cannot be translated raises Untranslatable -> the obligation is
reported inconclusive, never "held".
"""
import ast
import fractions
import time

import z3


class Untranslatable(Exception):
    pass


def rat(value):
    """Exact rational of a numeric literal as spelled (shortest round-trip decimal of the float)."""
    if isinstance(value, bool):
        raise Untranslatable('bool literal')
    if isinstance(value, int):
        return z3.RealVal(value)
    if isinstance(value, float):
        if value != value or value in (float('inf'), float('-inf')):
            raise Untranslatable('non-finite literal')
        return z3.RealVal(str(fractions.Fraction(repr(value))))
    raise Untranslatable('literal %r' % (value,))


def zabs(a):
    return z3.If(a >= 0, a, -a)


def zmax(a, b):
    return z3.If(a >= b, a, b)


def zmin(a, b):
    return z3.If(a <= b, a, b)


_UF = {}


def uf(name, arity):
    key = (name, arity)
    if key not in _UF:
        _UF[key] = z3.Function('uf_' + name, *([z3.RealSort()] * (arity + 1)))
    return _UF[key]


def to_z3(expr, env, funcs=None, opaque=False, fname=None):
    """Translate one expression of the equation language. env: name -> z3 term (callable or dict)."""
    if isinstance(env, dict):
        d = env

        def env(n, d=d):
            if n not in d:
                raise Untranslatable('unbound name ' + n)
            return d[n]
    try:
        node = ast.parse(expr.strip(), mode='eval').body
    except SyntaxError as e:
        raise Untranslatable('syntax: %s in %r' % (e.msg, expr))
    funcs = funcs or {}

    def boolean(n):
        if isinstance(n, ast.Compare):
            left = rec(n.left)
            out = []
            for op, right in zip(n.ops, n.comparators):
                r = rec(right)
                if isinstance(op, ast.Lt): out.append(left < r)
                elif isinstance(op, ast.LtE): out.append(left <= r)
                elif isinstance(op, ast.Gt): out.append(left > r)
                elif isinstance(op, ast.GtE): out.append(left >= r)
                elif isinstance(op, ast.Eq): out.append(left == r)
                elif isinstance(op, ast.NotEq): out.append(left != r)
                else: raise Untranslatable(ast.dump(op))
                left = r
            return z3.And(out) if len(out) > 1 else out[0]
        if isinstance(n, ast.BoolOp):
            vals = [boolean(v) for v in n.values]
            return z3.And(vals) if isinstance(n.op, ast.And) else z3.Or(vals)
        if isinstance(n, ast.UnaryOp) and isinstance(n.op, ast.Not):
            return z3.Not(boolean(n.operand))
        raise Untranslatable('boolean ' + ast.dump(n))

    def rec(n):
        if isinstance(n, ast.BinOp):
            if isinstance(n.op, ast.Pow):
                if isinstance(n.right, ast.Constant) and isinstance(n.right.value, int) and 0 <= n.right.value <= 6:
                    a = rec(n.left)
                    out = z3.RealVal(1)
                    for _ in range(n.right.value):
                        out = out * a
                    return out
                if opaque:
                    return uf('pow', 2)(rec(n.left), rec(n.right))
                raise Untranslatable('** with non-literal exponent')
            a, b = rec(n.left), rec(n.right)
            if isinstance(n.op, ast.Add): return a + b
            if isinstance(n.op, ast.Sub): return a - b
            if isinstance(n.op, ast.Mult): return a * b
            if isinstance(n.op, ast.Div): return a / b
            raise Untranslatable(ast.dump(n.op))
        if isinstance(n, ast.UnaryOp):
            if isinstance(n.op, ast.USub): return -rec(n.operand)
            if isinstance(n.op, ast.UAdd): return rec(n.operand)
            raise Untranslatable(ast.dump(n.op))
        if isinstance(n, ast.Constant):
            if opaque and isinstance(n.value, str):
                return z3.Real('strlit:' + n.value)
            if opaque and isinstance(n.value, complex):
                return z3.Real('numlit:' + repr(n.value))
            return rat(n.value)
        if opaque and isinstance(n, (ast.List, ast.Tuple)):
            args = [rec(a) for a in n.elts]
            return uf('list%d' % len(args), len(args))(*args) if args else z3.Real('emptylist')
        if opaque and isinstance(n, (ast.Compare, ast.BoolOp)):
            return z3.If(boolean(n), z3.RealVal(1), z3.RealVal(0))
        if isinstance(n, ast.Name):
            return env(n.id)
        if isinstance(n, ast.IfExp):
            return z3.If(boolean(n.test), rec(n.body), rec(n.orelse))
        if isinstance(n, ast.Call) and isinstance(n.func, ast.Name) and not n.keywords:
            args = [rec(a) for a in n.args]
            f = n.func.id
            if fname is not None:
                f = fname(f)
            if f in funcs:
                return funcs[f](*args)
            if f == 'abs' and len(args) == 1: return zabs(args[0])
            if f == 'max' and len(args) >= 2:
                out = args[0]
                for a in args[1:]: out = zmax(out, a)
                return out
            if f == 'min' and len(args) >= 2:
                out = args[0]
                for a in args[1:]: out = zmin(out, a)
                return out
            if f == 'float' and len(args) == 1: return args[0]
            return uf(f, len(args))(*args)
        raise Untranslatable(ast.dump(n)[:120])
    return rec(node)


def names_of(expr):
    try:
        node = ast.parse(expr.strip(), mode='eval')
    except SyntaxError as e:
        raise Untranslatable('syntax: %s in %r' % (e.msg, expr))
    return [n.id for n in ast.walk(node) if isinstance(n, ast.Name)]


# ---------------------------------------------------------------------------------------------------------------
class System:
    """Period-indexed copy of an equation system taken from the real EquationParser lists."""

    def __init__(self, parser, params=(), funcs=None, tag=''):
        self.endo = list(parser.Endogenous) + list(parser.Decoration)
        self.lagged = [(v, src.strip()) for v, src in parser.Lagged]
        self.exo = [v for v, _ in parser.Exogenous if v != 'k']
        self.init = dict(parser.InitialConditions)
        self.params = set(params)
        self.funcs = funcs or {}
        self.tag = tag
        self.V = {}
        self.defined = {v for v, _ in self.endo} | {v for v, _ in self.lagged} | set(self.exo)

    def var(self, name, per):
        if name in self.params:
            per = '*'
        key = (name, per)
        if key not in self.V:
            self.V[key] = z3.Real('%s%s@%s' % (self.tag, name, per))
        return self.V[key]

    def period(self, per, prev=None, skip=()):
        """Constraints of one period: every endogenous/decorative equation at `per`; lag links to `prev`
        (free lags when prev is None)."""
        cons = []
        for v, e in self.endo:
            if v in self.params or v in skip:
                continue
            cons.append(self.var(v, per) == to_z3(e, lambda n, per=per: self.var(n, per), self.funcs))
        if prev is not None:
            for v, src in self.lagged:
                cons.append(self.var(v, per) == self.var(src, prev))
            cons.append(self.var('k', per) == self.var('k', prev) + 1)
        return cons

    def rhs(self, name, per):
        for v, e in self.endo:
            if v == name:
                return to_z3(e, lambda n, per=per: self.var(n, per), self.funcs)
        raise KeyError(name)


def literal_params(parser, names):
    """Of the given variable names, those whose emitted definition is a plain numeric literal (may be freed)."""
    out = set()
    eq = dict(parser.Endogenous)
    eq.update(dict(parser.Decoration))
    for n in names:
        if n in eq:
            try:
                float(eq[n])
                out.add(n)
            except ValueError:
                pass
    return out


# ---------------------------------------------------------------------------------------------------------------
def linear_abstraction(assertions):
    """Replace every non-linear sub-term (product of >= 2 non-numeral factors, quotient by a non-numeral, power) by a fresh real,
    the same fresh real for the same term up to commutativity of the product.  Every model of the original assertions extends to a
    model of the abstraction, so UNSAT of the abstraction (linear real arithmetic, decided quickly) implies UNSAT of the original;
    SAT of the abstraction says nothing."""
    cache, atoms = {}, {}

    def atom(key):
        if key not in atoms:
            atoms[key] = z3.Real('nl!%d' % len(atoms))
        return atoms[key]

    def go(e):
        i = e.get_id()
        if i in cache:
            return cache[i]
        if not z3.is_app(e) or e.num_args() == 0:
            cache[i] = e
            return e
        kids = [go(c) for c in e.children()]
        k = e.decl().kind()
        if k == z3.Z3_OP_MUL:
            num = [c for c in kids if z3.is_rational_value(c) or z3.is_int_value(c)]
            non = [c for c in kids if not (z3.is_rational_value(c) or z3.is_int_value(c))]
            if len(non) <= 1:
                r = e.decl()(*kids) if len(kids) > 1 else kids[0]
            else:
                a = atom(('mul',) + tuple(sorted(c.sexpr() for c in non)))
                r = a
                for c in num:
                    r = c * r
        elif k == z3.Z3_OP_DIV:
            if z3.is_rational_value(kids[1]) or z3.is_int_value(kids[1]):
                r = kids[0] / kids[1]
            else:
                r = atom(('div', kids[0].sexpr(), kids[1].sexpr()))
        elif k == z3.Z3_OP_POWER:
            r = atom(('pow', kids[0].sexpr(), kids[1].sexpr()))
        else:
            r = e.decl()(*kids)
        cache[i] = r
        return r
    return [go(a) for a in assertions], len(atoms)


def divisors_of(assertions):
    """Every non-numeral denominator occurring in the assertions (z3 division is total; Python raises on a zero divisor, so a state
    with a zero divisor is not one the real code can evaluate - such states are excluded by assumption, and witnesses stay replayable)."""
    seen, out, outids = set(), [], set()

    def go(e):
        i = e.get_id()
        if i in seen:
            return
        seen.add(i)
        if z3.is_app(e):
            if e.decl().kind() == z3.Z3_OP_DIV:
                d = e.arg(1)
                if not (z3.is_rational_value(d) or z3.is_int_value(d)) and d.get_id() not in outids:
                    outids.add(d.get_id())
                    out.append(d)
            for c in e.children():
                go(c)
    for a in assertions:
        go(a)
    return out


class Decider:
    """Solver ladder with bookkeeping. decide() returns ('unsat'|'sat'|'unknown', model_or_None).
    Assumption built in: every non-numeral divisor of the query is non-zero (see divisors_of)."""

    def __init__(self, chk=None, timeout_ms=60000, use_cvc5=True):
        self.chk = chk
        self.timeout_ms = timeout_ms
        self.use_cvc5 = use_cvc5
        self.use_abstraction = True
        self.assume_nonzero_divisors = True
        self.rungs = {}
        self.solver_s = 0.0
        self.queries = 0

    def _note(self, rung, dt):
        self.rungs[rung] = self.rungs.get(rung, 0) + 1
        self.solver_s += dt
        self.queries += 1
        if self.chk is not None:
            self.chk.solver_s += dt
            self.chk.queries += 1

    def decide(self, assertions, timeout_ms=None, ladder=True):
        timeout_ms = timeout_ms or self.timeout_ms
        if self.assume_nonzero_divisors:
            assertions = list(assertions)
            assertions = assertions + [d != 0 for d in divisors_of(assertions)]
        if ladder and self.use_abstraction:
            # rung 0: the linear abstraction (sound for UNSAT only)
            t0 = time.time()
            try:
                # definitions are substituted and products distributed over sums first, so that an identity which needs
                # distributivity (interest paid on total deposits = sum of interest received) is visible to linear reasoning
                g = z3.Goal()
                g.add(assertions)
                pre = z3.Then('simplify', 'solve-eqs', z3.With('simplify', som=True))(g)
                forms = [f for sub in pre for f in sub] if len(pre) == 1 else None
                ab, n_atoms = linear_abstraction(forms if forms is not None else list(assertions))
                if forms is not None and len(forms) == 1 and z3.is_false(forms[0]):
                    self._note('z3-linear-abstraction', time.time() - t0)
                    return 'unsat', None
                if n_atoms:
                    s0 = z3.SolverFor('QF_LRA')
                    s0.set('timeout', min(timeout_ms, 10000))
                    s0.add(ab)
                    r0 = s0.check()
                    self._note('z3-linear-abstraction', time.time() - t0)
                    if r0 == z3.unsat:
                        return 'unsat', None
            except z3.Z3Exception:
                pass
        t0 = time.time()
        s = z3.Solver()
        s.set('timeout', timeout_ms)
        s.add(assertions)
        r = s.check()
        self._note('z3-default', time.time() - t0)
        if r == z3.unsat:
            return 'unsat', None
        if r == z3.sat:
            return 'sat', s.model()
        if not ladder:
            return 'unknown', None
        t0 = time.time()
        try:
            s2 = z3.Then('simplify', 'solve-eqs', 'qfnra-nlsat').solver()
            s2.set('timeout', timeout_ms)
            s2.add(assertions)
            r = s2.check()
        except z3.Z3Exception:
            r = z3.unknown
        self._note('z3-nlsat', time.time() - t0)
        if r == z3.unsat:
            return 'unsat', None
        if r == z3.sat:
            return 'sat', s2.model()
        if self.use_cvc5:
            t0 = time.time()
            r = cvc5_check(assertions, timeout_ms)
            self._note('cvc5', time.time() - t0)
            if r == 'unsat':
                return 'unsat', None
            # a cvc5 'sat' is not used as a counterexample source (no model transport); stays unknown
        return 'unknown', None

    def entails(self, premises, goal, **kw):
        """premises |= goal  <=>  unsat(premises and not goal)."""
        return self.decide(list(premises) + [z3.Not(goal)], **kw)


def smt2_of(assertions, logic=None):
    s = z3.Solver()
    s.add(assertions)
    txt = s.to_smt2()
    return txt


def cvc5_check(assertions, timeout_ms=60000):
    """Second opinion: re-decide with cvc5 (python wheel) through SMT-LIB2 text."""
    try:
        import cvc5
    except Exception:
        return 'unknown'
    txt = smt2_of(assertions)
    try:
        slv = cvc5.Solver()
        slv.setOption('tlimit-per', str(int(timeout_ms)))
        slv.setLogic('ALL')
        parser = cvc5.InputParser(slv)
        parser.setStringInput(cvc5.InputLanguage.SMT_LIB_2_6, txt, 'q')
        sm = parser.getSymbolManager()
        result = 'unknown'
        while True:
            cmd = parser.nextCommand()
            if cmd.isNull():
                break
            out = cmd.invoke(slv, sm)
            o = str(out).strip()
            if o in ('sat', 'unsat', 'unknown'):
                result = o
            elif o.startswith('(error'):
                return 'unknown'
        return result
    except Exception:
        return 'unknown'


def model_values(model, system, names, per):
    """Concrete floats for the named variables of a period from a z3 model (model completion on)."""
    out = {}
    for n in names:
        v = model.eval(system.var(n, per), model_completion=True)
        out[n] = val_float(v)
    return out


def val_float(v):
    v = z3.simplify(v)
    if z3.is_rational_value(v):
        return float(fractions.Fraction(v.numerator_as_long(), v.denominator_as_long()))
    if z3.is_algebraic_value(v):
        return float(v.approx(20).as_fraction())
    raise ValueError('not a numeral: %s' % v)


def val_fraction(v):
    v = z3.simplify(v)
    if z3.is_rational_value(v):
        return fractions.Fraction(v.numerator_as_long(), v.denominator_as_long())
    if z3.is_algebraic_value(v):
        return v.approx(30).as_fraction()
    raise ValueError('not a numeral: %s' % v)


# ---------------------------------------------------------------------------------------------------------------
def validate_translator(chk, exprs_with_envs):
    """Serval-style translator validation: evaluate each expression with Python's own eval on exact Fractions and
    compare with the z3 term evaluated at the same rational point. A mismatch is a harness error."""
    n = 0
    for expr, names in exprs_with_envs:
        pts = {}
        for i, nm in enumerate(sorted(set(names))):
            pts[nm] = fractions.Fraction(3 + 2 * i, 7 + i) * (-1 if i % 3 == 1 else 1)
        try:
            zt = to_z3(expr, {nm: z3.RealVal(str(v)) for nm, v in pts.items()})
        except Untranslatable:
            continue
        try:
            node = ast.parse(expr.strip(), mode='eval')
            # exact evaluation: literals as Fractions of their spelling
            class Lit(ast.NodeTransformer):
                def visit_Constant(self, c):
                    if isinstance(c.value, (int, float)) and not isinstance(c.value, bool):
                        return ast.copy_location(ast.Call(func=ast.Name(id='__F', ctx=ast.Load()),
                                                          args=[ast.Constant(value=repr(c.value))], keywords=[]), c)
                    return c
            node = ast.fix_missing_locations(Lit().visit(node))
            env = dict(pts)
            env['__F'] = fractions.Fraction
            pv = eval(compile(node, '<tv>', 'eval'), {'__builtins__': {'abs': abs, 'max': max, 'min': min, 'float': lambda x: x}}, env)
        except ZeroDivisionError:
            continue
        except Exception:
            continue
        zv = val_fraction(zt)
        n += 1
        if fractions.Fraction(pv) != zv:
            chk.harness_errors.append('translator mismatch on %r: python %s z3 %s' % (expr, pv, zv))
    chk.count('translator_validation_points', n)
    return n
