"""E3: CrossHair runner. Harness files hold PEP-316 functions that call the real API; `check_*` must come back
"Confirmed over all paths", `reach_*` are reachability twins (post: False-style) that must be refuted."""
import ast
import importlib.util
import os
import re
import subprocess
import sys
import time
from concurrent.futures import ThreadPoolExecutor

from vf.common import PY, ROOT


def functions_of(path):
    tree = ast.parse(open(path).read())
    out = []
    for n in tree.body:
        if isinstance(n, ast.FunctionDef) and (n.name.startswith('check_') or n.name.startswith('reach_')):
            out.append((n.name, n.lineno + 1))
    return out


LINE = re.compile(r'^(?P<file>[^:]+):(?P<line>\d+): (?P<level>info|error): (?P<msg>.*)$')


def run_one(path, name, line, timeout):
    cmd = [PY, '-m', 'crosshair', 'check', '--report_all', '--per_condition_timeout', str(timeout),
           '--per_path_timeout', str(max(5, timeout // 3)), '%s:%d' % (path, line)]
    env = dict(os.environ)
    env['PYTHONWARNINGS'] = 'ignore'
    env['PYTHONDONTWRITEBYTECODE'] = '1'
    env['PYTHONPATH'] = ROOT + os.pathsep + env.get('PYTHONPATH', '')
    t0 = time.time()
    try:
        p = subprocess.run(cmd, capture_output=True, text=True, timeout=timeout * 3 + 60, env=env, cwd=ROOT)
        out = p.stdout + p.stderr
    except subprocess.TimeoutExpired:
        return {'name': name, 'verdict': 'timeout', 'msg': 'outer timeout', 'wall': time.time() - t0, 'raw': ''}
    verdict, msg = 'unknown', ''
    for ln in out.splitlines():
        m = LINE.match(ln.strip())
        if not m:
            continue
        text = m.group('msg')
        if m.group('level') == 'error':
            verdict, msg = 'counterexample', text
            break
        if 'Confirmed over all paths' in text:
            verdict, msg = 'confirmed', text
        elif 'Not confirmed' in text:
            verdict, msg = 'not-confirmed', text
        elif 'Unable to meet precondition' in text:
            verdict, msg = 'no-precondition', text
    return {'name': name, 'verdict': verdict, 'msg': msg, 'wall': time.time() - t0, 'raw': out[-1500:]}


def run_file(path, timeout=60, only=None, workers=8):
    fns = [(n, l) for n, l in functions_of(path) if only is None or n in only]
    with ThreadPoolExecutor(max_workers=workers) as ex:
        futs = [ex.submit(run_one, path, n, l, timeout) for n, l in fns]
        return [f.result() for f in futs]


CALL = re.compile(r'when calling (?P<call>[A-Za-z_0-9]+\(.*\))(?: \(which returns|$)')


def extract_call(msg):
    m = CALL.search(msg)
    if not m:
        return None
    call = m.group('call')
    # cut a trailing " (which returns ...)" that the non-greedy match may have kept
    idx = call.rfind(') (which returns')
    if idx >= 0:
        call = call[:idx + 1]
    return call


REPLAY = '''
import sys, importlib.util, math
from math import inf, nan
spec = importlib.util.spec_from_file_location('harness', %(path)r)
mod = importlib.util.module_from_spec(spec); spec.loader.exec_module(mod)
call = %(call)r
# CrossHair explores the paths of one condition in one process; where the code under test keeps state at class or module
# level the counterexample may depend on calls made on earlier paths.  A harness lists such histories in WARMUP; every call
# in it is itself an instance of the property, so any False below is a violation in its own right.
for w in getattr(mod, 'WARMUP', {}).get(call.split('(')[0], []):
    try:
        rw = eval(w, vars(mod), {})
    except Exception as e:
        print('history call', w, 'raises', repr(e)); sys.exit(1)
    if not rw:
        print('history call', w, 'returns', rw); sys.exit(1)
print('replaying', call)
try:
    r = eval(call, vars(mod), {'inf': inf, 'nan': nan, 'float': float})
except Exception as e:
    print('raises', repr(e)); sys.exit(1)
print('returns', r)
sys.exit(0 if r else 1)
'''


def absorb(chk, path, results, expect_twin=True):
    """Fold CrossHair verdicts into a Check. A counterexample on a check_* function is replayed in plain Python."""
    for r in results:
        name = r['name']
        chk.count('crosshair_conditions')
        chk.solver_s += r['wall']
        chk.queries += 1
        if name.startswith('reach_'):
            chk.witness(r['verdict'] == 'counterexample', '%s must be refuted (reachability twin), got %s' % (name, r['verdict']))
            continue
        if r['verdict'] == 'confirmed':
            chk.ob('unsat', name, distinct=name)
        elif r['verdict'] == 'counterexample':
            chk.ob('sat', name, distinct=name)
            call = extract_call(r['msg'])
            if call is None:
                chk.harness_errors.append('cannot parse counterexample of %s: %s' % (name, r['msg'][:300]))
                continue
            chk.violation('%s:%s' % (os.path.basename(path), name), '%s fails: %s' % (name, r['msg'][:300]),
                          REPLAY % dict(path=path, call=call))
        else:
            chk.ob('unknown', '%s: %s %s' % (name, r['verdict'], r['msg'][:200]))
        chk.sample({'harness': os.path.basename(path) + ':' + name, 'crosshair_verdict': r['verdict'], 'wall_s': round(r['wall'], 1),
                    'message': r['msg'][:200]}, cap=30)
