"""Fork-based parallel map: items may hold closures (topology plans); only indices and plain results cross processes."""
import multiprocessing as mp
import os
import traceback

_ITEMS = None
_FN = None


def _call(i):
    try:
        return ('ok', _FN(_ITEMS[i]))
    except BaseException as e:  # noqa
        return ('error', '%s: %s\n%s' % (type(e).__name__, e, traceback.format_exc()[-1500:]))


def pmap(fn, items, procs=None):
    global _ITEMS, _FN
    items = list(items)
    if not items:
        return []
    procs = procs or min(int(os.environ.get('VERIF_PROCS', '16')), len(items))
    _ITEMS, _FN = items, fn
    if procs <= 1:
        return [_call(i) for i in range(len(items))]
    ctx = mp.get_context('fork')
    with ctx.Pool(procs) as pool:
        return pool.map(_call, range(len(items)), chunksize=1)
